(* Top-level assembly of C01 and C04: what the returned metadata is, relative to the input's last moov payload.
   Closed form of the loop (Mp4/LoopProofs.v) + shape of the metadata (Mp4/LoopProofsMeta.v) + the rewrite of one moov
   payload (Mp4/BoxProofs.v: shift_spec). *)
From Coq Require Import List NArith ZArith Bool Lia Arith.
From Coq.Strings Require Import Byte.
From MS Require Import Base.Bytes Base.Outcome Base.Prog Gen.Consts Gen.Kernels Mp4.Header Mp4.HeaderSpec Mp4.Box Mp4.San Mp4.Spec
  Mp4.ShiftSpec Mp4.HeaderProofs Mp4.LoopProofs Mp4.LoopProofsSpec Mp4.LoopProofsAccept Mp4.LoopProofsMeta Mp4.BoxProofs.
Import ListNotations.
Open Scope N_scope.
Arguments N.add : simpl never.
Arguments N.sub : simpl never.
Arguments N.mul : simpl never.
Arguments N.div : simpl never.
Arguments N.pow : simpl never.
Arguments N.eqb : simpl never.
Arguments N.ltb : simpl never.
Arguments N.leb : simpl never.

Lemma blen_app2 (a b : bytes) : blen (a ++ b) = blen a + blen b.
Proof. unfold blen. rewrite app_length. lia. Qed.

Lemma add_u64_inv site a b c : add_u64 site a b = Ok c -> c = a + b.
Proof. unfold add_u64. destruct (U64MAX <? a + b); [discriminate|]. intros H. injection H as <-. reflexivity. Qed.

Lemma displacement_inv off ml d : displacement off ml = Some d ->
  d = (Z.of_N ml - Z.of_N off)%Z /\ (- 2 ^ 31 <= d < 2 ^ 31)%Z.
Proof.
  unfold displacement, I32MAX. change (2 ^ 31)%Z with 2147483648%Z. change (2147483647 + 1) with 2147483648.
  destruct (N.leb_spec ml off).
  - destruct (N.leb_spec (off - ml) 2147483648); [|discriminate]. intros X. injection X as <-. lia.
  - destruct (N.leb_spec (ml - off) 2147483647); [|discriminate]. intros X. injection X as <-. lia.
Qed.

Definition shift_walk_of (d : Z) (kids : list node) := each_trak kids (shift_table (shift_entry 32 d) (shift_entry 64 d)).

(* what finish returns, in full: the metadata bytes read as boxes, and how the moov payload was obtained *)
Lemma finish_rewrite s o md pad : finish_p s = Ok o -> o_metadata o = Some (md, pad) ->
  exists fp kids off data mp psz,
    st_ftyp s = Some fp /\ st_moov s = Some (kids, off) /\ st_data s = Some data /\ o_data o = data /\
    metadata_shape (md_input md pad) = Some (fp, mp, psz) /\
    explicit_sizes (md_input md pad) = true /\
    ((mp = put_nodes kids /\ blen md + pad = s_off data /\ ((psz = 0 /\ pad = 0) \/ psz = 8 + pad)) \/
     (psz = 0 /\ pad = 0 /\
      exists kids' u, let d := (Z.of_N (blen md) - Z.of_N (s_off data))%Z in
        (- 2 ^ 31 <= d < 2 ^ 31)%Z /\ shift_walk_of d kids = Ok (kids', u) /\ mp = put_nodes kids')).
Proof.
  unfold finish_p. destruct (st_ftyp s) as [fp|]; [|discriminate].
  destruct (st_moov s) as [[kids mo]|]; [|discriminate]. destruct (st_data s) as [d|]; [|discriminate].
  destruct (mo <? s_off d). { intros H. injection H as <-. discriminate. }
  destruct (with_data_size (FourCC t_ftyp) _) as [fh| | | |] eqn:Efh; try discriminate. cbn [rbind].
  destruct (with_data_size (FourCC t_moov) _) as [mh| | | |] eqn:Emh; try discriminate. cbn [rbind].
  destruct (add_u64 6 (encoded_len fh) _) as [fl| | | |] eqn:A1; try discriminate. cbn [rbind].
  destruct (add_u64 6 (encoded_len mh) _) as [ml| | | |] eqn:A2; try discriminate. cbn [rbind].
  destruct (add_u64 6 fl ml) as [mdl| | | |] eqn:A3; try discriminate. cbn [rbind].
  apply add_u64_inv in A1, A2, A3.
  pose proof (good_with_data_size t_ftyp _ fh eq_refl eq_refl Efh) as GF.
  pose proof (good_with_data_size t_moov _ mh eq_refl eq_refl Emh) as GM.
  fold (blen fp) in GF, A1. fold (blen (put_nodes kids)) in GM, A2.
  pose proof (hdr_len fh (gh_wf _ _ _ GF)) as LF. pose proof (hdr_len mh (gh_wf _ _ _ GM)) as LM.
  fold (blen (hdr_put fh)) in LF. fold (blen (hdr_put mh)) in LM.
  destruct (_ && _) eqn:E0.
  { intros H E. injection H as <-. cbn [o_metadata o_data] in *. injection E as <- <-.
    destruct (shape_two fh fp mh (put_nodes kids) GF GM) as [S1 S2].
    exists fp, kids, mo, d, (put_nodes kids), 0. repeat split; try assumption; try reflexivity.
    left. split; [reflexivity|]. split; [|left; split; reflexivity].
    apply andb_prop in E0. destruct E0 as [E1 E2]. apply N.leb_le in E1. apply N.eqb_eq in E2.
    rewrite !blen_app2. lia. }
  destruct (_ && _ && _ && _) eqn:Epad.
  { intros H E. injection H as <-. cbn [o_metadata o_data] in *. injection E as <- <-.
    apply andb_prop in Epad. destruct Epad as [Epad _]. apply andb_prop in Epad. destruct Epad as [Epad E3].
    apply andb_prop in Epad. destruct Epad as [E1 E2]. apply N.leb_le in E1, E2, E3. unfold PAD_HEADER_SIZE, MAX_PAD_SIZE in *.
    set (g := s_off d - mdl) in *.
    assert (GP : good_hdr t_free (g - 8) (with_u32_data_size (FourCC t_free) (g - 8)))
      by (apply good_with_u32; [reflexivity | reflexivity | unfold U32MAX; lia]).
    destruct (shape_three fh fp mh (put_nodes kids) _ (g - 8) GF GM GP) as [S1 S2].
    pose proof (hdr_len _ (gh_wf _ _ _ GP)) as LP. fold (blen (hdr_put (with_u32_data_size (FourCC t_free) (g - 8)))) in LP.
    assert (EL : encoded_len (with_u32_data_size (FourCC t_free) (g - 8)) = 8).
    { clear S1 S2 GP LP. unfold with_u32_data_size, encoded_len. cbn [htype hsize].
      match goal with |- context [?a <=? U32MAX] => destruct (N.leb_spec a U32MAX) end; cbn [hsize htype]; unfold U32MAX in *; lia. }
    exists fp, kids, mo, d, (put_nodes kids), (encoded_len (with_u32_data_size (FourCC t_free) (g - 8)) + (g - 8)).
    repeat split; try assumption; try reflexivity.
    left. split; [reflexivity|]. split; [|right; lia].
    rewrite !blen_app2. lia. }
  destruct (displacement _ _) as [dl|] eqn:Ed; [|discriminate].
  destruct (each_trak kids _) as [[kids' u]| | | |] eqn:Et; try discriminate. cbn [rbind fst].
  intros H E. injection H as <-. cbn [o_metadata o_data] in *. injection E as <- <-.
  pose proof (each_trak_shift_length _ _ _ _ _ Et) as Hl.
  assert (GM' : good_hdr t_moov (blen (put_nodes kids')) mh) by (unfold blen in *; rewrite Hl; exact GM).
  destruct (shape_two fh fp mh (put_nodes kids') GF GM') as [S1 S2].
  exists fp, kids, mo, d, (put_nodes kids'), 0. repeat split; try assumption; try reflexivity.
  right. split; [reflexivity|]. split; [reflexivity|]. exists kids', u. cbv zeta.
  destruct (displacement_inv _ _ _ Ed) as [Ed1 Ed2].
  assert (Eb : blen (hdr_put fh ++ fp ++ hdr_put mh ++ put_nodes kids') = mdl).
  { rewrite !blen_app2. unfold blen in *. rewrite Hl. lia. }
  rewrite Eb, <- Ed1. split; [exact Ed2|]. split; [exact Et | reflexivity].
Qed.

(* ------------------------------------------------------------------ entries and exact shifts *)
Lemma pow256_Z w : Z.of_N (256 ^ w) = (2 ^ (8 * Z.of_N w))%Z.
Proof. rewrite N2Z.inj_pow. change (Z.of_N 256) with (2 ^ 8)%Z. rewrite <- Z.pow_mul_r by lia. reflexivity. Qed.

Lemma entries_bound p r e : In e (entries p r) -> e < 256 ^ (fst (fst r)).
Proof.
  destruct r as [[w off] count]. unfold entries. cbn [fst]. intros H. apply in_map_iff in H. destruct H as (i & <- & _).
  pose proof (be2n_lt (slice p (off + w * N.of_nat i) w)) as B.
  eapply N.lt_le_trans; [exact B|]. apply N.pow_le_mono_r; [lia|].
  unfold slice. rewrite firstn_length. lia.
Qed.

Lemma co_tables_bound p ts t e : co_tables p = Some ts -> In t ts -> In e (snd t) ->
  (0 <= Z.of_N e < 2 ^ (8 * Z.of_N (fst t)))%Z.
Proof.
  unfold co_tables. destruct (co_regions p) as [rs|]; [|discriminate]. intros H. injection H as <-.
  intros Ht He. apply in_map_iff in Ht. destruct Ht as (r & <- & _). cbn [fst snd] in *.
  apply entries_bound in He. rewrite <- pow256_Z. lia.
Qed.

Definition shifted_tables (delta : Z) (ts : list (N * list N)) : list (N * list N) :=
  map (fun t : N * list N => (fst t, map (fun e => Z.to_N (Z.of_N e + delta)) (snd t))) ts.

Lemma shifted_tables_0 ts : shifted_tables 0 ts = ts.
Proof.
  unfold shifted_tables. rewrite <- (map_id ts) at 2. apply map_ext. intros [w es]. cbn [fst snd]. f_equal.
  rewrite <- (map_id es) at 2. apply map_ext. intros e. rewrite Z.add_0_r. apply N2Z.id.
Qed.

Lemma shift_inv w d e e' : shift w d e = Some e' ->
  e' = Z.to_N (Z.of_N e + d) /\ (0 <= Z.of_N e + d < 2 ^ (8 * Z.of_N w))%Z.
Proof.
  unfold shift. destruct ((0 <=? Z.of_N e + d)%Z && (Z.of_N e + d <? 2 ^ (8 * Z.of_N w))%Z) eqn:E; [|discriminate].
  intros H. injection H as <-. apply andb_prop in E. destruct E as [E1 E2]. apply Z.leb_le in E1. apply Z.ltb_lt in E2.
  split; [reflexivity | lia].
Qed.

Lemma all_some_map_inv {A B} (f : A -> option B) (g : A -> B) (P : A -> Prop) :
  (forall a b, f a = Some b -> b = g a /\ P a) ->
  forall l r, all_some (map f l) = Some r -> r = map g l /\ (forall a, In a l -> P a).
Proof.
  intros Hf. induction l as [|a l IH]; intros r H; cbn [map all_some] in H.
  - injection H as <-. split; [reflexivity | intros a []].
  - destruct (f a) as [b|] eqn:E; [|discriminate]. destruct (all_some (map f l)) as [r0|] eqn:E0; [|discriminate].
    injection H as <-. destruct (Hf a b E) as [-> Pa]. destruct (IH r0 eq_refl) as [-> Pl].
    split; [reflexivity|]. intros x [<-|Hx]; [exact Pa | exact (Pl x Hx)].
Qed.

Lemma shift_all_inv d ts ts' : shift_all d ts = Some ts' ->
  ts' = shifted_tables d ts /\
  (forall t e, In t ts -> In e (snd t) -> (0 <= Z.of_N e + d < 2 ^ (8 * Z.of_N (fst t)))%Z).
Proof.
  unfold shift_all, shifted_tables. intros H.
  apply (all_some_map_inv (shift_table_spec d)
           (fun t : N * list N => (fst t, map (fun e => Z.to_N (Z.of_N e + d)) (snd t)))
           (fun t => forall e, In e (snd t) -> (0 <= Z.of_N e + d < 2 ^ (8 * Z.of_N (fst t)))%Z)) in H.
  - destruct H as [-> H]. split; [reflexivity|]. intros t e Ht He. exact (H t Ht e He).
  - intros t t' Ht. unfold shift_table_spec in Ht.
    destruct (all_some (map (shift (fst t) d) (snd t))) as [es|] eqn:E; [|discriminate]. injection Ht as <-.
    apply (all_some_map_inv (shift (fst t) d) (fun e => Z.to_N (Z.of_N e + d))
             (fun e => (0 <= Z.of_N e + d < 2 ^ (8 * Z.of_N (fst t)))%Z)) in E.
    + destruct E as [-> E]. split; [reflexivity | exact E].
    + intros e e' He. apply shift_inv. exact He.
Qed.

Lemma masked_eq_refl rs a : masked_eq rs a a = true.
Proof.
  unfold masked_eq. generalize 0. induction a as [|x a IH]; intros i; [reflexivity|]. cbn [masked_eq_from].
  destruct (Byte.byte_eq_dec x x); [|congruence]. rewrite orb_true_r, IH. reflexivity.
Qed.

(* ================================================================== the top-level statements *)
Section Top.
Variable cfg : config.
Variable inp : input.
Variable lenient : bool.
Hypothesis Hlen : ilen inp <= U64MAX.
Hypothesis Hcum : forall t, cumulative_mdat_box_size cfg = Some t -> t <= U32MAX.

Theorem rewrite_toplevel fuel o md pad :
  mp4_sanitize cfg lenient U64MAX' inp fuel = Ok o -> o_metadata o = Some (md, pad) ->
  exists bs f m mp' psz rs ts,
    tiling (cumulative_mdat_box_size cfg) inp = Some bs /\ the_ftyp bs = Some f /\ last_moov bs = Some m /\
    metadata_shape (md_input md pad) = Some (tb_payload inp f, mp', psz) /\
    co_regions (tb_payload inp m) = Some rs /\ co_tables (tb_payload inp m) = Some ts /\
    let delta := (Z.of_N (blen md + pad) - Z.of_N (s_off (o_data o)))%Z in
    co_regions mp' = Some rs /\
    co_tables mp' = Some (shifted_tables delta ts) /\
    (forall t e, In t ts -> In e (snd t) -> (0 <= Z.of_N e + delta < 2 ^ (8 * Z.of_N (fst t)))%Z) /\
    blen mp' = blen (tb_payload inp m) /\
    masked_eq rs (tb_payload inp m) mp' = true /\
    (psz <> 0 -> delta = 0%Z).
Proof.
  intros H E.
  assert (Hms : ilen inp <= U64MAX') by exact Hlen.
  assert (Hms64 : U64MAX' <= U64MAX) by (unfold U64MAX', U64MAX; lia).
  destruct (tiling (cumulative_mdat_box_size cfg) inp) as [bs|] eqn:Et.
  2:{ pose proof (sanitize_untiled inp lenient U64MAX' cfg Hms Hms64 Hcum fuel Et) as Hn. rewrite H in Hn. discriminate. }
  destruct (sanitize_tiled inp lenient U64MAX' cfg Hms Hms64 Hcum fuel bs Et) as [R|[R _]]; [|congruence].
  rewrite H in R. symmetry in R.
  destruct (fold_boxes cfg inp st0 bs) as [s'| | | |] eqn:Ef; try discriminate. cbn [rbind] in R.
  destruct (finish_rewrite s' o md pad R E) as (fp & kids & off & data & mp & psz & Sf & Sm & Sd & So & S1 & S2 & S3).
  pose proof (fold_ftyp cfg inp bs st0 s' Ef) as Ff. cbn [st0 st_ftyp] in Ff. rewrite Sf in Ff.
  pose proof (fold_moov cfg inp bs st0 s' Ef) as Fm. rewrite Sm in Fm.
  destruct (the_ftyp bs) as [f|] eqn:Etf; [|discriminate]. injection Ff as ->.
  destruct (last_moov bs) as [m|] eqn:Elm; [|cbn in Fm; discriminate].
  destruct Fm as (kids0 & Hk & Em). injection Em as <- _.
  destruct (moov_check_regions _ _ Hk) as (rs & CR & _).
  assert (CT : co_tables (tb_payload inp m) = Some (map (fun r => (fst (fst r), entries (tb_payload inp m) r)) rs))
    by (unfold co_tables; rewrite CR; reflexivity).
  set (ts := map (fun r => (fst (fst r), entries (tb_payload inp m) r)) rs) in *.
  exists bs, f, m, mp, psz, rs, ts.
  split; [reflexivity|]. split; [exact Etf|]. split; [exact Elm|]. split; [exact S1|]. split; [exact CR|]. split; [exact CT|].
  cbv zeta. rewrite So.
  destruct S3 as [(-> & Hd & Hp) | (-> & -> & kids' & u & Hr & Hw & ->)].
  - (* no rewrite of the tables: padding or exact fit *)
    rewrite (moov_check_put _ _ Hk). rewrite Hd, Z.sub_diag, shifted_tables_0.
    split; [exact CR|]. split; [exact CT|].
    split. { intros t e Ht He. rewrite Z.add_0_r. exact (co_tables_bound _ _ t e CT Ht He). }
    split; [reflexivity|]. split; [apply masked_eq_refl | reflexivity].
  - (* the tables are shifted by the displacement *)
    rewrite N.add_0_r. set (d := (Z.of_N (blen md) - Z.of_N (s_off data))%Z) in *. cbv zeta in Hr, Hw.
    pose proof (shift_spec _ _ rs ts d Hk CR CT Hr) as SS.
    destruct (shift_all d ts) as [ts'|] eqn:SA.
    + destruct SS as (k2 & u2 & ET2 & C2 & T2 & L2 & M2). unfold shift_walk_of in Hw. rewrite Hw in ET2.
      injection ET2 as <- <-. destruct (shift_all_inv d ts ts' SA) as [-> Hin].
      split; [exact C2|]. split; [exact T2|]. split; [exact Hin|]. split; [exact L2|]. split; [exact M2|].
      intros X. congruence.
    + unfold shift_walk_of in Hw. rewrite Hw in SS. discriminate.
Qed.

End Top.

(* ------------------------------------------------------------------ the statements as they appear in Props *)
Theorem C01_toplevel_lemma :
  forall (cfg : config) (lenient : bool) (inp : input) (fuel : nat) (o : out) (md : bytes) (pad : N),
  ilen inp <= U64MAX -> (forall t, cumulative_mdat_box_size cfg = Some t -> t <= U32MAX) ->
  mp4_sanitize cfg lenient U64MAX' inp fuel = Ok o -> o_metadata o = Some (md, pad) ->
  exists bs m fp mp' psz ts,
    tiling (cumulative_mdat_box_size cfg) inp = Some bs /\ last_moov bs = Some m /\
    metadata_shape (md_input md pad) = Some (fp, mp', psz) /\
    co_tables (tb_payload inp m) = Some ts /\
    let delta := (Z.of_N (blen md + pad) - Z.of_N (s_off (o_data o)))%Z in
    co_regions mp' = co_regions (tb_payload inp m) /\
    co_tables mp' = Some (map (fun t : N * list N => (fst t, map (fun e => Z.to_N (Z.of_N e + delta)) (snd t))) ts) /\
    (forall t e, In t ts -> In e (snd t) -> (0 <= Z.of_N e + delta < 2 ^ (8 * Z.of_N (fst t)))%Z) /\
    (psz <> 0 -> delta = 0%Z).
Proof.
  intros cfg lenient inp fuel o md pad Hl Hc H E.
  destruct (rewrite_toplevel cfg inp lenient Hl Hc fuel o md pad H E)
    as (bs & f & m & mp' & psz & rs & ts & T & _ & Lm & S & CR & CT & C1 & C2 & C3 & _ & _ & C6).
  exists bs, m, (tb_payload inp f), mp', psz, ts.
  split; [exact T|]. split; [exact Lm|]. split; [exact S|]. split; [exact CT|]. cbv zeta in *.
  split; [rewrite C1, CR; reflexivity|]. split; [exact C2|]. split; [exact C3 | exact C6].
Qed.

Theorem C01_pad_means_zero_shift_lemma :
  forall (cfg : config) (lenient : bool) (inp : input) (fuel : nat) (o : out) (md : bytes) (pad : N) fp mp psz,
  ilen inp <= U64MAX -> (forall t, cumulative_mdat_box_size cfg = Some t -> t <= U32MAX) ->
  mp4_sanitize cfg lenient U64MAX' inp fuel = Ok o -> o_metadata o = Some (md, pad) ->
  metadata_shape (md_input md pad) = Some (fp, mp, psz) -> psz <> 0 ->
  blen md + pad = s_off (o_data o).
Proof.
  intros cfg lenient inp fuel o md pad fp mp psz Hl Hc H E S Hp.
  destruct (rewrite_toplevel cfg inp lenient Hl Hc fuel o md pad H E)
    as (bs & f & m & mp' & psz' & rs & ts & _ & _ & _ & S' & _ & _ & _ & _ & _ & _ & _ & C6).
  rewrite S in S'. injection S' as _ _ <-. specialize (C6 Hp). cbv zeta in C6. lia.
Qed.

Theorem C01_overflow_rejected_toplevel_lemma :
  forall (cfg : config) (lenient : bool) (inp : input) (fuel : nat) (bs : list tbox),
  max_metadata_size cfg < 4294967296 -> ilen inp <= U64MAX ->
  (forall t, cumulative_mdat_box_size cfg = Some t -> t <= U32MAX) ->
  tiling (cumulative_mdat_box_size cfg) inp = Some bs ->
  (plan_of inp bs = Some Refuse \/
   exists d m ts t e, plan_of inp bs = Some (Shift d) /\ last_moov bs = Some m /\
     co_tables (tb_payload inp m) = Some ts /\ In t ts /\ In e (snd t) /\ shift (fst t) d e = None) ->
  is_ok (mp4_sanitize cfg lenient U64MAX' inp fuel) = false.
Proof.
  intros cfg lenient inp fuel bs Hm Hl Hc T Hov.
  destruct (mp4_sanitize cfg lenient U64MAX' inp fuel) eqn:R; try reflexivity. rewrite <- R.
  assert (Hne : mp4_sanitize cfg lenient U64MAX' inp fuel <> OutOfFuel) by (rewrite R; discriminate).
  rewrite (accept_iff_rules cfg inp lenient Hm Hl Hc moov_check_iff_spec moov_check_put shift_ok_iff fuel Hne).
  unfold overflow_spec. rewrite T.
  assert (O : overflow_case inp bs = true).
  { unfold overflow_case. destruct Hov as [-> | (d & m & ts & t & e & -> & -> & -> & Ht & He & Hs)]; [reflexivity|].
    apply existsb_exists. exists t. split; [exact Ht|]. apply existsb_exists. exists e. split; [exact He|]. rewrite Hs. reflexivity. }
  rewrite O. apply andb_false_r.
Qed.

Theorem C04_toplevel_lemma :
  forall (cfg : config) (lenient : bool) (inp : input) (fuel : nat) (o : out) (md : bytes) (pad : N),
  ilen inp <= U64MAX -> (forall t, cumulative_mdat_box_size cfg = Some t -> t <= U32MAX) ->
  mp4_sanitize cfg lenient U64MAX' inp fuel = Ok o -> o_metadata o = Some (md, pad) ->
  exists bs f m mp' psz rs,
    tiling (cumulative_mdat_box_size cfg) inp = Some bs /\ the_ftyp bs = Some f /\ last_moov bs = Some m /\
    metadata_shape (md_input md pad) = Some (tb_payload inp f, mp', psz) /\
    co_regions (tb_payload inp m) = Some rs /\
    blen mp' = blen (tb_payload inp m) /\
    masked_eq rs (tb_payload inp m) mp' = true.
Proof.
  intros cfg lenient inp fuel o md pad Hl Hc H E.
  destruct (rewrite_toplevel cfg inp lenient Hl Hc fuel o md pad H E)
    as (bs & f & m & mp' & psz & rs & ts & T & Tf & Lm & S & CR & _ & _ & _ & _ & C4 & C5 & _).
  exists bs, f, m, mp', psz, rs. repeat split; assumption.
Qed.
