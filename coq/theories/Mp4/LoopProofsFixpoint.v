(* C02 (b): sanitizing metadata || media again returns (None, |metadata|, len).
   Route: the tiling of the spliced input is [ftyp; moov; (free)?] followed by the media boxes of the original input
   relocated; the fold of the per-box transition over it succeeds (the original run vouches for the ftyp payload, the
   moov payload still has its tables, the media boxes are fillers) and ends with the moov before the media. *)
From Coq Require Import List NArith ZArith Bool Lia Arith.
From Coq.Strings Require Import Byte.
From MS Require Import Base.Bytes Base.Outcome Base.Prog Gen.Consts Gen.Kernels Mp4.Header Mp4.HeaderSpec Mp4.Box Mp4.San Mp4.Spec
  Mp4.ShiftSpec Mp4.SpliceSpec Mp4.HeaderProofs Mp4.LoopProofs Mp4.LoopProofsSpec Mp4.LoopProofsAccept Mp4.LoopProofsMeta
  Mp4.LoopProofsRewrite Mp4.BoxProofs.
Import ListNotations.
Open Scope N_scope.
Arguments N.add : simpl never.
Arguments N.sub : simpl never.
Arguments N.mul : simpl never.
Arguments N.div : simpl never.
Arguments N.pow : simpl never.
Arguments N.eqb : simpl never.
Arguments N.ltb : simpl never.
Arguments N.leb : simpl never.
Arguments N.min : simpl never.

(* ================================================================== segments of a tiling *)
Fixpoint seg (cum : option N) (I : input) (p : N) (bs : list tbox) (q : N) : Prop :=
  match bs with
  | [] => p = q
  | b :: r => p < ilen I /\ next_box cum I p = Some b /\ tb_end b <= ilen I /\ seg cum I (tb_end b) r q
  end.

Lemma seg_tile_all cum I : forall bs p, seg cum I p bs (ilen I) -> tile_all cum I p = Some bs.
Proof.
  induction bs as [|b r IH]; intros p H; cbn [seg] in H; rewrite tile_all_unfold.
  - subst p. rewrite N.leb_refl, N.eqb_refl. reflexivity.
  - destruct H as (Hp & Hn & He & Hs). destruct (N.leb_spec (ilen I) p); [lia|]. rewrite Hn.
    destruct (N.ltb_spec (ilen I) (tb_end b)); [lia|]. rewrite (IH _ Hs). reflexivity.
Qed.

Lemma tile_all_seg cum I : forall bs p, tile_all cum I p = Some bs -> seg cum I p bs (ilen I).
Proof.
  induction bs as [|b r IH]; intros p H; rewrite tile_all_unfold in H; cbn [seg].
  - destruct (N.leb_spec (ilen I) p).
    + destruct (N.eqb_spec p (ilen I)); [assumption | discriminate].
    + destruct (next_box cum I p); [|discriminate]. destruct (_ <? _); [discriminate|].
      destruct (tile_all cum I _); discriminate.
  - destruct (N.leb_spec (ilen I) p).
    + destruct (p =? ilen I); discriminate.
    + destruct (next_box cum I p) as [b0|] eqn:Eb; [|discriminate].
      destruct (N.ltb_spec (ilen I) (tb_end b0)); [discriminate|].
      destruct (tile_all cum I (tb_end b0)) as [r0|] eqn:Er; [|discriminate].
      injection H as -> ->. repeat split; try assumption. apply IH. exact Er.
Qed.

Lemma seg_app cum I : forall l1 p l2 q, seg cum I p (l1 ++ l2) q <-> exists mid, seg cum I p l1 mid /\ seg cum I mid l2 q.
Proof.
  induction l1 as [|b r IH]; intros p l2 q; cbn [app seg].
  - split; [intros H; exists p; split; [reflexivity | exact H] | intros (mid & -> & H); exact H].
  - split.
    + intros (H1 & H2 & H3 & H4). apply IH in H4. destruct H4 as (mid & H4 & H5). exists mid. repeat split; assumption.
    + intros (mid & (H1 & H2 & H3 & H4) & H5). repeat split; try assumption. apply IH. exists mid. split; assumption.
Qed.

Lemma seg_end cum I : forall bs p q, seg cum I p bs q -> q = p + sumsz bs.
Proof.
  induction bs as [|b r IH]; intros p q H; cbn [seg] in H.
  - subst. rewrite sumsz_nil. lia.
  - destruct H as (_ & Hn & _ & Hs). apply IH in Hs. destruct (next_box_facts _ _ _ _ Hn) as (Ho & _).
    rewrite sumsz_cons. unfold tb_end in Hs. lia.
Qed.

Lemma seg_off cum I b r p q : seg cum I p (b :: r) q -> tb_off b = p.
Proof. intros (_ & Hn & _). apply (next_box_facts _ _ _ _ Hn). Qed.

(* ================================================================== relocation of a region that reaches the end *)
Lemma iread_agree J I : forall k a b, (forall i, i < N.of_nat k -> iget J (a + i) = iget I (b + i)) -> iread J a k = iread I b k.
Proof.
  induction k as [|k IH]; intros a b H; [reflexivity|]. cbn [iread].
  rewrite <- (N.add_0_r a) at 1. rewrite <- (N.add_0_r b) at 2. rewrite (H 0) by lia. rewrite !N.add_0_r. f_equal.
  apply IH. intros i Hi. replace (a + 1 + i) with (a + (1 + i)) by lia. replace (b + 1 + i) with (b + (1 + i)) by lia.
  apply H. lia.
Qed.

Definition move (a b : N) (bx : tbox) : tbox :=
  {| tb_off := tb_off bx - b + a; tb_type := tb_type bx; tb_hlen := tb_hlen bx; tb_size := tb_size bx |}.

Section Reloc.
Variables J I : input.
Variables a b n : N.
Variable cum : option N.
Hypothesis HJ : ilen J = a + n.
Hypothesis HI : b + n <= ilen I.
Hypothesis Hget : forall x, x < n -> iget J (a + x) = iget I (b + x).

Lemma reloc_next x bx : x < n -> next_box cum I (b + x) = Some bx -> tb_end bx <= b + n ->
  next_box cum J (a + x) = Some (move a b bx).
Proof.
  intros Hx Hn He. destruct (next_box_facts _ _ _ _ Hn) as (Ho & H8 & Hs).
  unfold next_box in *. rewrite shdr_of_hdr_read in Hn.
  destruct (hdr_read (window I (b + x))) as [[h r]|] eqn:Er; [|discriminate].
  destruct (hdr_read_inv _ _ _ Er) as [Hwf Hw].
  cbn [sh_of_hdr sh_len] in Hn.
  destruct (N.ltb_spec (resolve cum I (b + x) (sh_of_hdr h)) (encoded_len h)) as [|Hge]; [discriminate|].
  injection Hn as <-. cbn [tb_off tb_hlen tb_size tb_type] in *. unfold tb_end in He. cbn [tb_off tb_size] in He.
  assert (Ht : type_wf (htype h) = true) by (unfold hdr_wf in Hwf; apply andb_prop in Hwf; tauto).
  pose proof (hdr_put_length h Ht) as Lh.
  assert (L32 : encoded_len h <= 32) by (unfold encoded_len; destruct (hsize h), (htype h); lia).
  (* the window of J starts with the same header *)
  assert (Wj : exists r', window J (a + x) = hdr_put h ++ r').
  { unfold window. rewrite HJ.
    set (k2 := N.to_nat (N.min 32 (a + n - (a + x)))).
    assert (K2 : (length (hdr_put h) <= k2)%nat) by (unfold k2; lia).
    rewrite (iread_agree J I k2 (a + x) (b + x)).
    2:{ intros i Hi. replace (a + x + i) with (a + (x + i)) by lia. replace (b + x + i) with (b + (x + i)) by lia.
        apply Hget. unfold k2 in Hi. lia. }
    unfold window in Hw.
    rewrite <- (firstn_iread I (b + x) k2 (N.to_nat (N.min 32 (ilen I - (b + x))))) by (unfold k2; lia).
    rewrite Hw, firstn_app. rewrite (firstn_all2 (n := k2) (hdr_put h)) by exact K2. eexists. reflexivity. }
  destruct Wj as [r' Wj]. rewrite Wj, shdr_of_hdr_read, hdr_read_put by exact Hwf. cbn [sh_of_hdr sh_len].
  assert (Res : resolve cum J (a + x) (sh_of_hdr h) = resolve cum I (b + x) (sh_of_hdr h)).
  { unfold resolve in *. cbn [sh_of_hdr sh_size sh_type] in *. destruct (box_size_of h); [reflexivity|].
    assert (E : ilen J - (a + x) = ilen I - (b + x) \/ (exists c, cum = Some c /\ beq (sh_type_of (htype h)) MDAT = true)).
    { destruct cum as [c|]; [destruct (beq (sh_type_of (htype h)) MDAT) eqn:Em|].
      - right. exists c. split; reflexivity.
      - left. lia.
      - left. lia. }
    destruct E as [E | (c & -> & Em)]; [|rewrite Em; reflexivity].
    rewrite E. reflexivity. }
  rewrite Res. destruct (N.ltb_spec (resolve cum I (b + x) (sh_of_hdr h)) (encoded_len h)); [lia|].
  unfold move. cbn [tb_off tb_type tb_hlen tb_size]. do 2 f_equal. lia.
Qed.

Lemma reloc_seg : forall bs x q, x <= n -> seg cum I (b + x) bs q -> q <= b + n ->
  seg cum J (a + x) (map (move a b) bs) (a + (q - b)).
Proof.
  induction bs as [|bx r IH]; intros x q Hx H Hq; cbn [seg map] in *.
  - subst q. f_equal. lia.
  - destruct H as (Hp & Hn & He & Hs).
    destruct (next_box_facts _ _ _ _ Hn) as (Ho & H8 & Hsz).
    pose proof (seg_end _ _ _ _ _ Hs) as Eq.
    assert (Hend : tb_end bx <= b + n) by lia.
    assert (Hxn : x < n) by (unfold tb_end in Hend; lia).
    repeat split.
    + rewrite HJ. lia.
    + apply reloc_next; assumption.
    + unfold tb_end, move in *. cbn [tb_off tb_size]. rewrite HJ. lia.
    + replace (tb_end (move a b bx)) with (a + (tb_end bx - b)) by (unfold tb_end, move; cbn [tb_off tb_size]; lia).
      apply IH; [unfold tb_end in *; lia | | exact Hq].
      replace (b + (tb_end bx - b)) with (tb_end bx) by (unfold tb_end in *; lia). exact Hs.
Qed.

End Reloc.

(* ================================================================== an input that starts with a byte list *)
Section Prefix.
Variable I : input.
Variable L : bytes.
Variable cum : option N.
Hypothesis HLlen : blen L <= ilen I.
Hypothesis HLget : forall i, i < blen L -> iget I i = nth (N.to_nat i) L x00.

Lemma iread_pre : forall n p, (N.to_nat p + n <= length L)%nat -> iread I p n = firstn n (skipn (N.to_nat p) L).
Proof.
  induction n as [|n IH]; intros p H; [reflexivity|].
  cbn [iread]. rewrite HLget by (unfold blen; lia). rewrite IH by lia. rewrite (skipn_nth x00 L (N.to_nat p)) by lia.
  cbn [firstn]. do 2 f_equal. f_equal. lia.
Qed.

Section PBox.
Variable p : N.
Variable h : header.
Variables payload rest : bytes.
Hypothesis Hat : skipn (N.to_nat p) L = hdr_put h ++ payload ++ rest.
Hypothesis Hwf : hdr_wf h = true.
Hypothesis Hsz : box_size_of h = Some (encoded_len h + blen payload).

Lemma pre_len : N.of_nat (length L) = p + encoded_len h + blen payload + blen rest /\
                N.of_nat (length (hdr_put h)) = encoded_len h /\ 8 <= encoded_len h <= 32.
Proof.
  pose proof (f_equal (@length _) Hat) as E. rewrite skipn_length, !app_length in E.
  assert (Ht : type_wf (htype h) = true) by (unfold hdr_wf in Hwf; apply andb_prop in Hwf; tauto).
  pose proof (hdr_put_length h Ht) as Lh.
  assert (B : 8 <= encoded_len h <= 32) by (unfold encoded_len; destruct (hsize h), (htype h); lia).
  unfold blen. lia.
Qed.

Lemma next_box_pre : next_box cum I p = Some (the_box p h payload).
Proof.
  destruct pre_len as (E1 & E2 & E3). unfold blen in *.
  unfold next_box, window.
  set (k := N.to_nat (N.min 32 (ilen I - p))).
  assert (K : (length (hdr_put h) <= k)%nat) by (unfold k; lia).
  replace k with (length (hdr_put h) + (k - length (hdr_put h)))%nat by lia.
  rewrite iread_app, iread_pre by lia. rewrite Hat, firstn_app_len by reflexivity.
  rewrite shdr_of_hdr_read, hdr_read_put by exact Hwf.
  unfold resolve. cbn [sh_of_hdr sh_size sh_len sh_type]. rewrite Hsz.
  destruct (N.ltb_spec (encoded_len h + N.of_nat (length payload)) (encoded_len h)); [lia | reflexivity].
Qed.

Lemma payload_pre : tb_payload I (the_box p h payload) = payload.
Proof.
  destruct pre_len as (E1 & E2 & E3). unfold tb_payload, the_box. cbn [tb_off tb_hlen tb_size]. unfold blen in *.
  rewrite iread_pre by lia.
  replace (N.to_nat (p + encoded_len h)) with (N.to_nat p + length (hdr_put h))%nat by lia.
  rewrite <- skipn_add, Hat, skipn_app_len by reflexivity.
  replace (N.to_nat (encoded_len h + N.of_nat (length payload) - encoded_len h)) with (length payload) by lia.
  apply firstn_app_len. reflexivity.
Qed.

Lemma seg_pre r q : seg cum I (p + (encoded_len h + blen payload)) r q -> seg cum I p (the_box p h payload :: r) q.
Proof.
  intros H. destruct pre_len as (E1 & E2 & E3). unfold blen in *. cbn [seg].
  split; [lia|]. split; [exact next_box_pre|]. split; [|exact H].
  unfold tb_end, the_box. cbn [tb_off tb_size]. unfold blen. lia.
Qed.

End PBox.
End Prefix.

(* ================================================================== list facts *)
Lemma drop_until_split {A} (f : A -> bool) l : exists pre, l = pre ++ drop_until f l.
Proof.
  induction l as [|x r IH]; [exists []; reflexivity|]. cbn [drop_until]. destruct (f x); [exists []; reflexivity|].
  destruct IH as [pre IH]. exists (x :: pre). cbn [app]. f_equal. exact IH.
Qed.

Lemma take_while_split {A} (f : A -> bool) l : exists post, l = take_while f l ++ post.
Proof.
  induction l as [|x r IH]; [exists []; reflexivity|]. cbn [take_while]. destruct (f x); [|exists (x :: r); reflexivity].
  destruct IH as [post IH]. exists post. cbn [app]. f_equal. exact IH.
Qed.

Lemma take_while_forallb {A} (f : A -> bool) l : forallb f (take_while f l) = true.
Proof.
  induction l as [|x r IH]; [reflexivity|]. cbn [take_while]. destruct (f x) eqn:E; [|reflexivity].
  cbn [forallb]. rewrite E, IH. reflexivity.
Qed.

Lemma take_while_all {A} (f : A -> bool) l : forallb f l = true -> take_while f l = l.
Proof.
  induction l as [|x r IH]; [reflexivity|]. cbn [forallb take_while]. intros H. apply andb_prop in H. destruct H as [H1 H2].
  rewrite H1, IH by exact H2. reflexivity.
Qed.

Lemma media_split bs : exists pre post, bs = pre ++ media_boxes bs ++ post.
Proof.
  unfold media_boxes. destruct (drop_until_split (is MDAT) bs) as [pre E].
  destruct (take_while_split is_filler (drop_until (is MDAT) bs)) as [post E2].
  exists pre, post. rewrite <- E2. exact E.
Qed.

Lemma is_move a b bx t : is t (move a b bx) = is t bx.
Proof. reflexivity. Qed.
Lemma is_filler_move a b bx : is_filler (move a b bx) = is_filler bx.
Proof. reflexivity. Qed.
Lemma sumsz_move a b l : sumsz (map (move a b) l) = sumsz l.
Proof. induction l as [|x r IH]; [reflexivity|]. cbn [map]. rewrite !sumsz_cons, IH. reflexivity. Qed.

Lemma filler_not_ftyp_moov bx : is_filler bx = true -> is FTYP bx = false /\ is MOOV bx = false.
Proof.
  rewrite is_filler_kind, is_ftyp_kind, is_moov_kind. destruct (kind_of bx); intros H; try discriminate; split; reflexivity.
Qed.

Lemma layout'_fillers l : forallb is_filler l = true -> layout' true l = true.
Proof.
  induction l as [|x r IH]; [reflexivity|]. cbn [forallb layout']. intros H. apply andb_prop in H. destruct H as [H1 H2].
  rewrite is_ftyp_kind, is_pad_kind, is_body_kind. rewrite is_filler_kind in H1. rewrite (IH H2).
  destruct (kind_of x); try discriminate; reflexivity.
Qed.

Lemma Ft_fillers inp l : forallb is_filler l = true -> Ft inp l = true.
Proof.
  unfold Ft. induction l as [|x r IH]; [reflexivity|]. cbn [forallb]. intros H. apply andb_prop in H. destruct H as [H1 H2].
  destruct (filler_not_ftyp_moov x H1) as [-> _]. rewrite (IH H2). reflexivity.
Qed.
Lemma Mv_fillers cfg inp l : forallb is_filler l = true -> Mv cfg inp l = true.
Proof.
  unfold Mv. induction l as [|x r IH]; [reflexivity|]. cbn [forallb]. intros H. apply andb_prop in H. destruct H as [H1 H2].
  destruct (filler_not_ftyp_moov x H1) as [_ ->]. rewrite (IH H2). reflexivity.
Qed.
Lemma filter_fillers t l : forallb is_filler l = true -> (t = FTYP \/ t = MOOV) -> filter (is t) l = [].
Proof.
  intros H Ht. induction l as [|x r IH]; [reflexivity|]. cbn [forallb filter] in *. apply andb_prop in H. destruct H as [H1 H2].
  destruct (filler_not_ftyp_moov x H1) as [E1 E2]. destruct Ht as [-> | ->]; [rewrite E1 | rewrite E2]; apply IH; exact H2.
Qed.

(* ================================================================== the bytes of the returned metadata *)
Lemma finish_layout s o md pad : finish_p s = Ok o -> o_metadata o = Some (md, pad) ->
  exists fp mp fh mh tailh psz,
    st_ftyp s = Some fp /\
    md = hdr_put fh ++ fp ++ hdr_put mh ++ mp ++ tailh /\
    good_hdr t_ftyp (blen fp) fh /\ good_hdr t_moov (blen mp) mh /\
    ((tailh = [] /\ pad = 0) \/ (exists ph, tailh = hdr_put ph /\ good_hdr t_free pad ph)) /\
    metadata_shape (md_input md pad) = Some (fp, mp, psz).
Proof.
  unfold finish_p. destruct (st_ftyp s) as [fp|]; [|discriminate].
  destruct (st_moov s) as [[kids mo]|]; [|discriminate]. destruct (st_data s) as [d|]; [|discriminate].
  destruct (mo <? s_off d). { intros H. injection H as <-. discriminate. }
  destruct (with_data_size (FourCC t_ftyp) _) as [fh| | | |] eqn:Efh; try discriminate. cbn [rbind].
  destruct (with_data_size (FourCC t_moov) _) as [mh| | | |] eqn:Emh; try discriminate. cbn [rbind].
  destruct (add_u64 6 (encoded_len fh) _) as [fl| | | |]; try discriminate. cbn [rbind].
  destruct (add_u64 6 (encoded_len mh) _) as [ml| | | |]; try discriminate. cbn [rbind].
  destruct (add_u64 6 fl ml) as [mdl| | | |]; try discriminate. cbn [rbind].
  pose proof (good_with_data_size t_ftyp _ fh eq_refl eq_refl Efh) as GF.
  pose proof (good_with_data_size t_moov _ mh eq_refl eq_refl Emh) as GM.
  fold (blen fp) in GF. fold (blen (put_nodes kids)) in GM.
  destruct (_ && _).
  { intros H E. injection H as <-. cbn [o_metadata] in E. injection E as <- <-.
    destruct (shape_two fh fp mh (put_nodes kids) GF GM) as [S1 _].
    exists fp, (put_nodes kids), fh, mh, [], 0. rewrite app_nil_r.
    split; [reflexivity|]. split; [reflexivity|]. split; [exact GF|]. split; [exact GM|]. split; [left; split; reflexivity | exact S1]. }
  destruct (_ && _ && _ && _) eqn:Epad.
  { intros H E. injection H as <-. cbn [o_metadata] in E. injection E as <- <-.
    apply andb_prop in Epad. destruct Epad as [Epad _]. apply andb_prop in Epad. destruct Epad as [Epad E3].
    apply andb_prop in Epad. destruct Epad as [_ E2]. apply N.leb_le in E2, E3. unfold PAD_HEADER_SIZE, MAX_PAD_SIZE in *.
    set (g := s_off d - mdl) in *.
    assert (GP : good_hdr t_free (g - 8) (with_u32_data_size (FourCC t_free) (g - 8)))
      by (apply good_with_u32; [reflexivity | reflexivity | unfold U32MAX; lia]).
    destruct (shape_three fh fp mh (put_nodes kids) _ (g - 8) GF GM GP) as [S1 _].
    eexists fp, (put_nodes kids), fh, mh, _, _.
    split; [reflexivity|]. split; [reflexivity|]. split; [exact GF|]. split; [exact GM|].
    split; [right; eexists; split; [reflexivity | exact GP] | exact S1]. }
  destruct (displacement _ _) as [dl|]; [|discriminate].
  destruct (each_trak kids _) as [[kids' u]| | | |] eqn:Et; try discriminate. cbn [rbind fst].
  intros H E. injection H as <-. cbn [o_metadata] in E. injection E as <- <-.
  pose proof (each_trak_shift_length _ _ _ _ _ Et) as Hl.
  assert (GM' : good_hdr t_moov (blen (put_nodes kids')) mh) by (unfold blen in *; rewrite Hl; exact GM).
  destruct (shape_two fh fp mh (put_nodes kids') GF GM') as [S1 _].
  exists fp, (put_nodes kids'), fh, mh, [], 0. rewrite app_nil_r.
  split; [reflexivity|]. split; [reflexivity|]. split; [exact GF|]. split; [exact GM'|]. split; [left; split; reflexivity | exact S1].
Qed.

(* the spliced input starts with md ++ zeros pad and continues with the media region *)
Lemma splice_get_md md pad inp off len i : i < blen (md ++ zeros (N.to_nat pad)) ->
  iget (splice md pad inp off len) i = nth (N.to_nat i) (md ++ zeros (N.to_nat pad)) x00.
Proof.
  intros H. unfold splice. cbn [iget]. unfold blen in *. rewrite app_length in H. unfold zeros in *. rewrite repeat_length in H.
  destruct (N.ltb_spec i (N.of_nat (length md))).
  - rewrite app_nth1 by lia. reflexivity.
  - destruct (N.ltb_spec i (N.of_nat (length md) + pad)); [|lia].
    rewrite app_nth2 by lia. symmetry. apply nth_repeat.
Qed.

Lemma splice_get_media md pad inp off len x :
  iget (splice md pad inp off len) (blen md + pad + x) = iget inp (off + x).
Proof.
  unfold splice. cbn [iget]. destruct (N.ltb_spec (blen md + pad + x) (blen md)); [lia|].
  destruct (N.ltb_spec (blen md + pad + x) (blen md + pad)); [lia|]. f_equal. lia.
Qed.

(* ================================================================== the head of the spliced input *)
Lemma head_seg (J : input) cum fp mp fh mh tailh pad rest_boxes :
  let md := hdr_put fh ++ fp ++ hdr_put mh ++ mp ++ tailh in
  let L := md ++ zeros (N.to_nat pad) in
  blen L <= ilen J -> (forall i, i < blen L -> iget J i = nth (N.to_nat i) L x00) ->
  good_hdr t_ftyp (blen fp) fh -> good_hdr t_moov (blen mp) mh ->
  ((tailh = [] /\ pad = 0) \/ (exists ph, tailh = hdr_put ph /\ good_hdr t_free pad ph)) ->
  seg cum J (blen md + pad) rest_boxes (ilen J) ->
  let f2 := the_box 0 fh fp in
  let m2 := the_box (0 + (encoded_len fh + blen fp)) mh mp in
  exists tl, seg cum J 0 (f2 :: m2 :: tl ++ rest_boxes) (ilen J) /\ Forall (fun b => tb_type b = FREE) tl /\
    tb_payload J f2 = fp /\ tb_payload J m2 = mp /\ tb_off m2 < blen md + pad.
Proof.
  intros md L HLl HLg [F1 F2 F3 F4] [M1 M2 M3 M4] Htail Hrest f2 m2.
  pose proof (hdr_len fh F2) as LF. pose proof (hdr_len mh M2) as LM.
  assert (B8 : 8 <= encoded_len mh) by (unfold encoded_len; destruct (hsize mh), (htype mh); lia).
  set (p2 := 0 + (encoded_len fh + blen fp)) in *.
  destruct Htail as [(-> & ->) | (ph & -> & [P1 P2 P3 P4])].
  - assert (HL : L = hdr_put fh ++ fp ++ hdr_put mh ++ mp ++ [])
      by (unfold L, md; cbn [N.to_nat zeros repeat]; rewrite <- !app_assoc; reflexivity).
    assert (A1 : skipn (N.to_nat 0) L = hdr_put fh ++ fp ++ (hdr_put mh ++ mp ++ [])) by (rewrite HL; reflexivity).
    assert (A2 : skipn (N.to_nat p2) L = hdr_put mh ++ mp ++ []).
    { rewrite HL. replace (N.to_nat p2) with (length (hdr_put fh) + length fp)%nat by (unfold p2, blen; lia).
      rewrite <- skipn_add. rewrite skipn_app_len by reflexivity. rewrite skipn_app_len by reflexivity. reflexivity. }
    assert (EM : blen md + 0 = p2 + (encoded_len mh + blen mp)).
    { unfold md, p2. rewrite !blen_app2. unfold blen in *. cbn [length]. lia. }
    exists []. cbn [app]. split.
    + apply (seg_pre J L cum HLl HLg 0 fh fp _ A1 F2 F3). fold p2.
      apply (seg_pre J L cum HLl HLg p2 mh mp _ A2 M2 M3). rewrite <- EM. exact Hrest.
    + split; [constructor|]. split; [exact (payload_pre J L HLl HLg 0 fh fp _ A1 F2)|].
      split; [exact (payload_pre J L HLl HLg p2 mh mp _ A2 M2)|].
      unfold m2, the_box. cbn [tb_off]. lia.
  - set (Z := zeros (N.to_nat pad)) in *.
    assert (BZ : blen Z = pad) by (unfold Z, blen, zeros; rewrite repeat_length; lia).
    pose proof (hdr_len ph P2) as LP.
    assert (HL : L = hdr_put fh ++ fp ++ hdr_put mh ++ mp ++ hdr_put ph ++ Z ++ [])
      by (unfold L, md; rewrite <- !app_assoc, app_nil_r; reflexivity).
    assert (A1 : skipn (N.to_nat 0) L = hdr_put fh ++ fp ++ (hdr_put mh ++ mp ++ hdr_put ph ++ Z ++ [])) by (rewrite HL; reflexivity).
    assert (A2 : skipn (N.to_nat p2) L = hdr_put mh ++ mp ++ (hdr_put ph ++ Z ++ [])).
    { rewrite HL. replace (N.to_nat p2) with (length (hdr_put fh) + length fp)%nat by (unfold p2, blen; lia).
      rewrite <- skipn_add. rewrite skipn_app_len by reflexivity. rewrite skipn_app_len by reflexivity. reflexivity. }
    set (p3 := p2 + (encoded_len mh + blen mp)).
    assert (A3 : skipn (N.to_nat p3) L = hdr_put ph ++ Z ++ []).
    { replace (N.to_nat p3) with (N.to_nat p2 + (length (hdr_put mh) + length mp))%nat by (unfold p3, blen; lia).
      rewrite <- skipn_add, A2. rewrite <- skipn_add. rewrite skipn_app_len by reflexivity. rewrite skipn_app_len by reflexivity.
      reflexivity. }
    assert (P3' : box_size_of ph = Some (encoded_len ph + blen Z)) by (rewrite BZ; exact P3).
    assert (EM : blen md + pad = p3 + (encoded_len ph + blen Z)).
    { unfold md, p3, p2. rewrite !blen_app2, BZ. unfold blen in *. lia. }
    exists [the_box p3 ph Z]. cbn [app]. split.
    + apply (seg_pre J L cum HLl HLg 0 fh fp _ A1 F2 F3). fold p2.
      apply (seg_pre J L cum HLl HLg p2 mh mp _ A2 M2 M3). fold p3.
      apply (seg_pre J L cum HLl HLg p3 ph Z _ A3 P2 P3'). rewrite <- EM. exact Hrest.
    + split. { constructor; [|constructor]. unfold the_box. cbn [tb_type]. rewrite P1. reflexivity. }
      split; [exact (payload_pre J L HLl HLg 0 fh fp _ A1 F2)|].
      split; [exact (payload_pre J L HLl HLg p2 mh mp _ A2 M2)|].
      unfold m2, the_box. cbn [tb_off]. rewrite EM. unfold p3. lia.
Qed.

(* boxes that are not mdat in front of a list do not change its media run *)
Lemma media_prefix pre l : Forall (fun b => is MDAT b = false) pre ->
  media_run (pre ++ l) = media_run l /\ mdat_contiguous (pre ++ l) = mdat_contiguous l.
Proof.
  induction 1 as [|x r Hx _ IH]; [split; reflexivity|]. cbn [app].
  rewrite (media_run_skip x _ Hx), (mdat_contiguous_skip x _ Hx). exact IH.
Qed.

Lemma skipn_all_nil {A} (l : list A) : skipn (length l) l = [].
Proof. induction l; [reflexivity | assumption]. Qed.

(* ================================================================== C02 (b) *)
Section Resanitize.
Variable cfg : config.
Variable inp : input.
Variables lenient lenient2 : bool.
Hypothesis Hmax : max_metadata_size cfg < 4294967296.
Hypothesis Hlen : ilen inp <= U64MAX.
Hypothesis Hcum : forall t, cumulative_mdat_box_size cfg = Some t -> t <= U32MAX.
Let cum := cumulative_mdat_box_size cfg.

(* the spliced file as the specification reads it (its tiling, its last moov and that moov's payload = the returned moov payload)
   together with the result of the second run *)
Theorem resanitize_structure fuel fuel2 o md pad :
  mp4_sanitize cfg lenient U64MAX' inp fuel = Ok o -> o_metadata o = Some (md, pad) ->
  let J := splice md pad inp (s_off (o_data o)) (s_len (o_data o)) in
  ilen J <= U64MAX -> (N.to_nat (ilen J / 8) < fuel2)%nat ->
  exists bs2 m2 fp mp psz,
    metadata_shape (md_input md pad) = Some (fp, mp, psz) /\
    tiling cum J = Some bs2 /\ last_moov bs2 = Some m2 /\ tb_payload J m2 = mp /\
    mp4_sanitize cfg lenient2 U64MAX' J fuel2 =
    Ok {| o_metadata := None; o_data := {| s_off := blen md + pad; s_len := s_len (o_data o) |} |}.
Proof.
  intros H E J HJl Hfuel.
  assert (Hms : ilen inp <= U64MAX') by exact Hlen.
  assert (Hms64 : U64MAX' <= U64MAX) by (unfold U64MAX', U64MAX; lia).
  (* the first run *)
  destruct (tiling cum inp) as [bs|] eqn:Et.
  2:{ pose proof (sanitize_untiled inp lenient U64MAX' cfg Hms Hms64 Hcum fuel Et) as Hn. rewrite H in Hn. discriminate. }
  destruct (sanitize_tiled inp lenient U64MAX' cfg Hms Hms64 Hcum fuel bs Et) as [R|[R _]]; [|congruence].
  rewrite H in R. symmetry in R.
  destruct (fold_boxes cfg inp st0 bs) as [s'| | | |] eqn:Ef; try discriminate. cbn [rbind] in R.
  destruct (finish_layout s' o md pad R E) as (fp & mp & fh & mh & tailh & psz & Sf & Emd & GF & GM & Htail & Shape).
  destruct (rewrite_toplevel cfg inp lenient Hlen Hcum fuel o md pad H E)
    as (bs' & f & m & mp' & psz' & rs & ts & T' & Tf & Lm & S' & CR & CT & C1 & _ & _ & C4 & _ & _).
  fold cum in T'. rewrite Et in T'. injection T' as <-.
  rewrite Shape in S'. injection S' as Efp Emp _. subst mp'.
  destruct (span_is_media_run inp lenient cfg Hlen Hcum fuel o H) as (bs'' & T'' & MR & Hin & _).
  fold cum in T''. rewrite Et in T''. injection T'' as <-.
  set (off := s_off (o_data o)) in *. set (len := s_len (o_data o)) in *.
  (* what the first run checked about the ftyp and moov payloads *)
  pose proof (tile_chain _ _ _ _ _ Et) as Hc.
  pose proof (fold_ok cfg inp Hmax moov_check_iff_spec bs st0 0 (ilen inp) Hc I) as Hok.
  rewrite Ef in Hok. cbn [is_ok st0 seen st_ftyp st_data Dfun] in Hok. symmetry in Hok.
  apply andb_prop in Hok. destruct Hok as [Hok _]. apply andb_prop in Hok. destruct Hok as [Hok HM].
  apply andb_prop in Hok. destruct Hok as [_ HF].
  destruct (hd_filter_in _ _ _ Tf) as [Hfin Hfis]. destruct (last_moov_in _ _ Lm) as [Hmin Hmis].
  pose proof (forallb_In _ _ _ HF Hfin) as Hfok. cbn beta in Hfok. rewrite Hfis, <- Efp in Hfok.
  pose proof (forallb_In _ _ _ HM Hmin) as Hmok. cbn beta in Hmok. rewrite Hmis in Hmok.
  unfold moov_ok in Hmok. apply andb_prop in Hmok. destruct Hmok as [Hm1 _]. apply N.leb_le in Hm1. rewrite <- C4 in Hm1.
  (* the media boxes of the first input *)
  assert (Hseg : seg cum inp 0 bs (ilen inp)) by (apply tile_all_seg; rewrite <- tiling_tile_all; exact Et).
  destruct (media_split bs) as (pre & post & Ebs).
  unfold media_run in MR. destruct (media_boxes bs) as [|d r] eqn:Emed; [discriminate|].
  injection MR as Eoff Elen. rewrite fold_left_sz, N.add_0_l in Elen.
  assert (Hfill : forallb is_filler (d :: r) = true) by (rewrite <- Emed; apply take_while_forallb).
  assert (Hd : is MDAT d = true).
  { unfold media_boxes in Emed. clear - Emed. induction bs as [|x l IH]; [discriminate|]. cbn [drop_until] in Emed.
    destruct (is MDAT x) eqn:Ex; [|exact (IH Emed)]. cbn [take_while] in Emed. rewrite (is_mdat_filler x Ex) in Emed.
    injection Emed as -> _. exact Ex. }
  rewrite Ebs in Hseg. apply seg_app in Hseg. destruct Hseg as (mid1 & _ & Hseg).
  apply seg_app in Hseg. destruct Hseg as (mid2 & Smed & _).
  pose proof (seg_off _ _ _ _ _ _ Smed) as Eo1. pose proof (seg_end _ _ _ _ _ Smed) as Ee1.
  rewrite Eoff in Eo1. rewrite <- Eo1 in *. rewrite sumsz_cons, Elen in Ee1. rewrite Ee1 in *. clear Eo1 Ee1.
  (* the same boxes in the spliced input *)
  set (M := blen md + pad) in *.
  assert (HJ : ilen J = M + len) by reflexivity.
  assert (Hget : forall x, x < len -> iget J (M + x) = iget inp (off + x)) by (intros x _; apply splice_get_media).
  replace off with (off + 0) in Smed at 1 by lia.
  pose proof (reloc_seg J inp M off len cum HJ Hin Hget (d :: r) 0 (off + len) ltac:(lia) Smed ltac:(lia)) as Sm2.
  replace (M + 0) with M in Sm2 by lia. replace (M + (off + len - off)) with (ilen J) in Sm2 by lia.
  set (media' := map (move M off) (d :: r)) in *.
  assert (Hfill' : forallb is_filler media' = true).
  { unfold media'. rewrite forallb_forall in *. intros x Hx. apply in_map_iff in Hx. destruct Hx as (y & <- & Hy).
    rewrite is_filler_move. apply Hfill. exact Hy. }
  (* the head: ftyp, moov, (free) *)
  assert (HLl : blen (md ++ zeros (N.to_nat pad)) <= ilen J).
  { rewrite HJ. unfold M. rewrite blen_app2. unfold blen at 2, zeros. rewrite repeat_length. lia. }
  pose proof (splice_get_md md pad inp off len) as HLg. fold J in HLg.
  rewrite Emd in HLl, HLg. unfold M in Sm2. rewrite Emd in Sm2.
  destruct (head_seg J cum fp mp fh mh tailh pad media' HLl HLg GF GM Htail Sm2) as (tl & Sall & Htl & Pf & Pm & Hoff).
  rewrite <- Emd in Hoff. fold M in Hoff.
  set (f2 := the_box 0 fh fp) in *. set (m2 := the_box (0 + (encoded_len fh + blen fp)) mh mp) in *.
  assert (Tf2 : tb_type f2 = FTYP) by (unfold f2, the_box; cbn [tb_type]; rewrite (gh_type _ _ _ GF); reflexivity).
  assert (Tm2 : tb_type m2 = MOOV) by (unfold m2, the_box; cbn [tb_type]; rewrite (gh_type _ _ _ GM); reflexivity).
  assert (Kf2 : kind_of f2 = KFtyp) by (unfold kind_of, is; rewrite Tf2; reflexivity).
  assert (Km2 : kind_of m2 = KMoov) by (unfold kind_of, is; rewrite Tm2; reflexivity).
  assert (Ftl : forallb is_filler tl = true).
  { apply forallb_forall. intros x Hx. rewrite Forall_forall in Htl. specialize (Htl x Hx).
    unfold is_filler, is. rewrite Htl. reflexivity. }
  set (rest := tl ++ media') in *.
  assert (Frest : forallb is_filler rest = true) by (unfold rest; rewrite forallb_app, Ftl, Hfill'; reflexivity).
  set (bs2 := f2 :: m2 :: rest) in *.
  assert (T2 : tiling cum J = Some bs2) by (rewrite tiling_tile_all; apply seg_tile_all; exact Sall).
  assert (Elm2 : last_moov bs2 = Some m2).
  { unfold last_moov, bs2. cbn [filter]. rewrite !is_moov_kind, Kf2, Km2.
    rewrite (filter_fillers MOOV rest Frest (or_intror eq_refl)). reflexivity. }
  exists bs2, m2, fp, mp, psz. split; [exact Shape|]. split; [exact T2|]. split; [exact Elm2|]. split; [exact Pm|].
  (* the second run *)
  assert (HmsJ : ilen J <= U64MAX') by exact HJl.
  rewrite (loop_fuel_enough J lenient2 U64MAX' cfg HmsJ Hms64 Hcum fuel2 bs2 T2 Hfuel).
  pose proof (tile_chain _ _ _ _ _ T2) as Hc2.
  pose proof (fold_ok cfg J Hmax moov_check_iff_spec bs2 st0 0 (ilen J) Hc2 I) as Hok2.
  cbn [st0 seen st_ftyp st_data Dfun] in Hok2.
  assert (Hmd : Forall (fun b => is MDAT b = false) (f2 :: m2 :: tl)).
  { constructor; [rewrite is_mdat_kind, Kf2; reflexivity|]. constructor; [rewrite is_mdat_kind, Km2; reflexivity|].
    rewrite Forall_forall in *. intros x Hx. specialize (Htl x Hx). unfold is. rewrite Htl. reflexivity. }
  assert (Ebs2 : bs2 = (f2 :: m2 :: tl) ++ media') by reflexivity.
  destruct (media_prefix (f2 :: m2 :: tl) media' Hmd) as [MR2 MC2]. rewrite <- Ebs2 in MR2, MC2.
  assert (Em' : media' = move M off d :: map (move M off) r) by reflexivity.
  assert (Hd' : is MDAT (move M off d) = true) by (rewrite is_move; exact Hd).
  assert (Fr' : forallb is_filler (map (move M off) r) = true).
  { rewrite Em' in Hfill'. cbn [forallb] in Hfill'. apply andb_prop in Hfill'. tauto. }
  assert (MRm : media_run media' = Some (M, len)).
  { rewrite Em', (media_run_first _ _ Hd'), (take_while_all _ _ Fr'). f_equal. f_equal.
    - rewrite Em' in Sm2. apply seg_off in Sm2. rewrite <- Emd in Sm2. exact Sm2.
    - change (tb_size (move M off d)) with (tb_size d). rewrite sumsz_move. exact Elen. }
  assert (MCm : mdat_contiguous media' = true).
  { rewrite Em', (mdat_contiguous_first _ _ Hd'), (take_while_all _ _ Fr'), skipn_all_nil. reflexivity. }
  rewrite MRm in MR2. rewrite MCm in MC2.
  assert (Hfold2 : is_ok (fold_boxes cfg J st0 bs2) = true).
  { rewrite Hok2, MC2, andb_true_r. unfold bs2.
    cbn [layout']. rewrite !is_ftyp_kind, !is_pad_kind, is_body_kind, Kf2, Km2. cbn [negb andb].
    rewrite (layout'_fillers rest Frest). cbn [andb].
    unfold Ft, Mv. cbn [forallb]. rewrite !is_ftyp_kind, !is_moov_kind, Kf2, Km2. fold (Ft J rest). fold (Mv cfg J rest).
    rewrite (Ft_fillers J rest Frest), (Mv_fillers cfg J rest Frest), Pf, Pm, Hfok. cbn [andb].
    unfold moov_ok. rewrite C1. apply N.leb_le in Hm1. rewrite Hm1. reflexivity. }
  destruct (fold_boxes cfg J st0 bs2) as [s2| | | |] eqn:Ef2; try discriminate. cbn [rbind].
  pose proof (fold_ftyp cfg J bs2 st0 s2 Ef2) as Ff2. cbn [st0 st_ftyp] in Ff2.
  pose proof (fold_moov cfg J bs2 st0 s2 Ef2) as Fm2.
  destruct (fold_data_none cfg J bs2 st0 0 (ilen J) s2 Hc2 eq_refl Ef2) as (Fd2 & _ & _). rewrite MR2 in Fd2.
  assert (Etf2 : the_ftyp bs2 = Some f2).
  { unfold the_ftyp, bs2. cbn [filter]. rewrite is_ftyp_kind, Kf2. reflexivity. }
  rewrite Etf2, Pf in Ff2. rewrite Elm2 in Fm2. destruct Fm2 as (kids2 & _ & Fm2).
  unfold finish_p. rewrite Ff2, Fm2, Fd2. cbn [s_off].
  destruct (N.ltb_spec (tb_off m2) M); [reflexivity | lia].
Qed.

Theorem resanitize_fixpoint fuel fuel2 o md pad :
  mp4_sanitize cfg lenient U64MAX' inp fuel = Ok o -> o_metadata o = Some (md, pad) ->
  let J := splice md pad inp (s_off (o_data o)) (s_len (o_data o)) in
  ilen J <= U64MAX -> (N.to_nat (ilen J / 8) < fuel2)%nat ->
  mp4_sanitize cfg lenient2 U64MAX' J fuel2 =
  Ok {| o_metadata := None; o_data := {| s_off := blen md + pad; s_len := s_len (o_data o) |} |}.
Proof.
  intros H E J HJl Hfuel.
  destruct (resanitize_structure fuel fuel2 o md pad H E HJl Hfuel) as (bs2 & m2 & fp & mp & psz & _ & _ & _ & _ & R). exact R.
Qed.

End Resanitize.
