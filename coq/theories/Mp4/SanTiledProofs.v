(* C10, through the specification's tiling (uses the loop lemma of Mp4/LoopProofs.v): on an input that is a sequence of
   complete top-level boxes the result of the sanitizer depends only on the box HEADERS and on the payloads of the ftyp
   and moov boxes -- never on a payload byte of any other box. *)
From Coq Require Import List NArith ZArith Bool Lia ZifyBool ZifyNat ZifyN.
From Coq.Strings Require Import Byte.
From MS Require Import Base.Bytes Base.Outcome Base.Prog Base.ProgSpec Base.ProgProofs Gen.Consts
  Mp4.Header Mp4.Box Mp4.San Mp4.Spec Mp4.LoopProofs.
Import ListNotations.
Open Scope N_scope.
Arguments N.add : simpl never.
Arguments N.sub : simpl never.
Arguments N.mul : simpl never.
Arguments N.div : simpl never.
Arguments N.modulo : simpl never.
Arguments N.pow : simpl never.
Arguments N.eqb : simpl never.
Arguments N.ltb : simpl never.
Arguments N.leb : simpl never.
Arguments N.min : simpl never.
Arguments N.max : simpl never.

(* ---- a header as the specification reads it depends only on its own bytes *)
Lemma slice_firstn (l : bytes) (n a b : N) : a + b <= n -> Spec.slice (firstn (N.to_nat n) l) a b = Spec.slice l a b.
Proof.
  intros H. unfold Spec.slice. rewrite skipn_firstn_comm, firstn_firstn. f_equal. lia.
Qed.

Lemma slice_prefix (l1 l2 : bytes) (n a b : N) :
  firstn (N.to_nat n) l1 = firstn (N.to_nat n) l2 -> a + b <= n -> Spec.slice l1 a b = Spec.slice l2 a b.
Proof. intros E H. rewrite <- (slice_firstn l1 n a b H), <- (slice_firstn l2 n a b H). now rewrite E. Qed.

Lemma firstn_le_prefix {X} (l1 l2 : list X) (n m : nat) : (m <= n)%nat -> firstn n l1 = firstn n l2 -> firstn m l1 = firstn m l2.
Proof.
  intros H E. rewrite <- (Nat.min_l m n H), <- !firstn_firstn. now rewrite E.
Qed.

Lemma shdr_of_prefix (l1 l2 : bytes) (h : shdr) :
  shdr_of l1 = Some h -> length l1 = length l2 ->
  firstn (N.to_nat (sh_len h)) l1 = firstn (N.to_nat (sh_len h)) l2 -> shdr_of l2 = Some h.
Proof.
  unfold shdr_of. intros H Hlen E. unfold Spec.blen in *. rewrite <- Hlen.
  destruct (N.of_nat (length l1) <? 8) eqn:E8; [discriminate|].
  set (sz := be2n (Spec.slice l1 0 4)) in *.
  set (after := if sz =? 1 then 16 else 8) in *.
  destruct (N.of_nat (length l1) <? after) eqn:Ea; [discriminate|].
  assert (Hhl : after <= sh_len h).
  { destruct (beq (Spec.slice l1 4 4) UUID); [destruct (_ <? after + 16); [discriminate|]|]; injection H as <-; cbn [sh_len]; lia. }
  assert (H8 : 8 <= after) by (unfold after; destruct (sz =? 1); lia).
  assert (S04 : Spec.slice l2 0 4 = Spec.slice l1 0 4) by (symmetry; apply (slice_prefix _ _ _ _ _ E); lia).
  assert (S44 : Spec.slice l2 4 4 = Spec.slice l1 4 4) by (symmetry; apply (slice_prefix _ _ _ _ _ E); lia).
  rewrite S04, S44. fold sz. fold after. rewrite Ea.
  assert (S88 : (sz =? 1) = true -> Spec.slice l2 8 8 = Spec.slice l1 8 8).
  { intros H1. symmetry. apply (slice_prefix _ _ _ _ _ E). unfold after in Hhl. rewrite H1 in Hhl. lia. }
  assert (Hsize : (if sz =? 0 then None else if sz =? 1 then Some (be2n (Spec.slice l2 8 8)) else Some sz) =
                  (if sz =? 0 then None else if sz =? 1 then Some (be2n (Spec.slice l1 8 8)) else Some sz)).
  { destruct (sz =? 0); [reflexivity|]. destruct (sz =? 1) eqn:E1; [|reflexivity]. now rewrite S88. }
  rewrite Hsize.
  destruct (beq (Spec.slice l1 4 4) UUID); [|exact H].
  destruct (N.of_nat (length l1) <? after + 16); [discriminate|].
  injection H as <-. cbn [sh_len] in E.
  assert (SU : Spec.slice l2 after 16 = Spec.slice l1 after 16) by (symmetry; apply (slice_prefix _ _ _ _ _ E); lia).
  now rewrite SU.
Qed.

Lemma length_window_eq i1 i2 off : ilen i1 = ilen i2 -> length (window i1 off) = length (window i2 off).
Proof. intros Hl. unfold window. rewrite !ProgProofs.length_iread. now rewrite Hl. Qed.

Lemma firstn_iread_ext i1 i2 off : forall k n,
  (forall j, off <= j < off + N.of_nat n -> iget i1 j = iget i2 j) ->
  firstn n (iread i1 off k) = firstn n (iread i2 off k).
Proof.
  intros k. revert off. induction k as [|k IH]; intros off n H; [now destruct n|].
  destruct n as [|n]; [reflexivity|]. cbn [iread firstn]. f_equal; [apply H; lia|].
  apply IH. intros j Hj. apply H. lia.
Qed.

(* ---- the tiling depends only on the length and on the header bytes of its boxes *)
Definition headers_agree (i1 i2 : input) (bs : list tbox) : Prop :=
  forall b j, In b bs -> tb_off b <= j < tb_off b + tb_hlen b -> iget i1 j = iget i2 j.
Definition kept_payloads_agree (i1 i2 : input) (bs : list tbox) : Prop :=
  forall b j, In b bs -> is FTYP b || is MOOV b = true -> tb_off b + tb_hlen b <= j < tb_off b + tb_size b ->
              iget i1 j = iget i2 j.

Lemma tile_ext cum i1 i2 : ilen i1 = ilen i2 -> forall fuel off bs,
  tile fuel cum i1 off = Some bs -> headers_agree i1 i2 bs -> tile fuel cum i2 off = Some bs.
Proof.
  intros Hl. induction fuel as [|fuel IH]; intros off bs Ht Hag.
  - cbn [tile] in *. rewrite <- Hl. exact Ht.
  - cbn [tile] in *. rewrite <- Hl. destruct (ilen i1 <=? off); [exact Ht|].
    destruct (shdr_of (window i1 off)) as [h|] eqn:Eh; [|discriminate].
    set (size := match sh_size h with
                 | Some s => s
                 | None => match cum with Some c => if beq (sh_type h) MDAT then c else ilen i1 - off | None => ilen i1 - off end
                 end) in *.
    destruct (size <? sh_len h) eqn:E1; [discriminate|]. destruct (ilen i1 <? off + size) eqn:E2; [discriminate|].
    destruct (tile fuel cum i1 (off + size)) as [r|] eqn:Er; [|discriminate]. injection Ht as <-.
    assert (Eh2 : shdr_of (window i2 off) = Some h).
    { apply (shdr_of_prefix _ _ _ Eh (length_window_eq _ _ _ Hl)). unfold window. rewrite <- Hl.
      apply firstn_iread_ext. intros j Hj. apply (Hag _ j (or_introl eq_refl)). cbn [tb_off tb_hlen]. lia. }
    rewrite Eh2. fold size. rewrite E1, E2.
    rewrite (IH _ _ Er); [reflexivity|]. intros b j Hb. apply Hag. now right.
Qed.

(* ---- the fold over the boxes looks at the input only through the payloads of ftyp and moov *)
Lemma tb_payload_ext i1 i2 b :
  (forall j, tb_off b + tb_hlen b <= j < tb_off b + tb_size b -> iget i1 j = iget i2 j) -> tb_payload i1 b = tb_payload i2 b.
Proof. intros H. unfold tb_payload. apply ProgProofs.iread_ext. intros j Hj. apply H. lia. Qed.

Lemma box_step_ext cfg i1 i2 s b :
  (is FTYP b || is MOOV b = true -> tb_payload i1 b = tb_payload i2 b) -> box_step cfg i1 s b = box_step cfg i2 s b.
Proof.
  intros H. unfold box_step.
  destruct (is FREE b || is SKIP b); [reflexivity|].
  destruct (is FTYP b) eqn:Ef. { rewrite (H eq_refl). reflexivity. }
  destruct (st_ftyp s); [|reflexivity].
  destruct (is MDAT b); [reflexivity|].
  destruct (is MOOV b) eqn:Em. { rewrite (H eq_refl). reflexivity. }
  reflexivity.
Qed.

Lemma fold_boxes_ext cfg i1 i2 : forall bs s, kept_payloads_agree i1 i2 bs -> fold_boxes cfg i1 s bs = fold_boxes cfg i2 s bs.
Proof.
  induction bs as [|b r IH]; intros s H; [reflexivity|]. cbn [fold_boxes].
  rewrite (box_step_ext cfg i1 i2 s b).
  - destruct (box_step cfg i2 s b); cbn [rbind]; try reflexivity. apply IH. intros b' j Hb. apply H. now right.
  - intros Hk. apply tb_payload_ext. intros j Hj. apply (H b j (or_introl eq_refl) Hk Hj).
Qed.

(* ---- media is never inspected, stated through the specification's tiling *)
Theorem media_noninterference_tiled : forall (cfg : config) (fuel : nat) (i1 i2 : input) (lenient : bool) (max_seek : N)
                                             (bs : list tbox),
  ilen i1 <= max_seek -> max_seek <= 18446744073709551615 ->
  (forall t, cumulative_mdat_box_size cfg = Some t -> t <= 4294967295) ->
  (N.to_nat (ilen i1 / 8) < fuel)%nat ->
  ilen i1 = ilen i2 ->
  tiling (cumulative_mdat_box_size cfg) i1 = Some bs ->
  headers_agree i1 i2 bs -> kept_payloads_agree i1 i2 bs ->
  mp4_sanitize cfg lenient max_seek i2 fuel = mp4_sanitize cfg lenient max_seek i1 fuel.
Proof.
  intros cfg fuel i1 i2 lenient ms bs Hms Hms64 Hcum Hfuel Hl Ht Hh Hp.
  assert (Ht2 : tiling (cumulative_mdat_box_size cfg) i2 = Some bs).
  { unfold tiling in *. rewrite <- Hl. now apply (tile_ext _ i1 i2 Hl). }
  rewrite (loop_fuel_enough i1 lenient ms cfg Hms Hms64 Hcum fuel bs Ht Hfuel).
  rewrite (loop_fuel_enough i2 lenient ms cfg ltac:(rewrite <- Hl; exact Hms) Hms64 Hcum fuel bs Ht2 ltac:(rewrite <- Hl; exact Hfuel)).
  now rewrite (fold_boxes_ext cfg i1 i2 bs st0 Hp).
Qed.

(* non-vacuity: a tiled input and a variant that differs in one mdat payload byte *)
Example media_noninterference_tiled_example :
  let i1 := input_of_bytes [x00; x00; x00; x14; x66; x74; x79; x70; x69; x73; x6f; x6d; x00; x00; x00; x00; x69; x73; x6f; x6d;
                            x00; x00; x00; x0b; x6d; x64; x61; x74; x61; x62; x63] in
  let i2 := input_of_bytes [x00; x00; x00; x14; x66; x74; x79; x70; x69; x73; x6f; x6d; x00; x00; x00; x00; x69; x73; x6f; x6d;
                            x00; x00; x00; x0b; x6d; x64; x61; x74; x61; xff; x63] in
  exists bs, tiling None i1 = Some bs /\ length bs = 2%nat /\
             forallb (fun b => forallb (fun j => if Byte.byte_eq_dec (iget i1 (tb_off b + j)) (iget i2 (tb_off b + j)) then true else false)
                                       [0; 1; 2; 3; 4; 5; 6; 7]) bs = true.
Proof. eexists. vm_compute. repeat split. Qed.
