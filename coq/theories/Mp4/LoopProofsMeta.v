(* C02 (a): the metadata returned by the MP4 sanitizer is a sequence of boxes: ftyp, moov and optionally one free box
   of zeros, with explicit sizes, and nothing else -- as the specification's recogniser [metadata_shape] reads it. *)
From Coq Require Import List NArith ZArith Bool Lia Arith.
From Coq.Strings Require Import Byte.
From MS Require Import Base.Bytes Base.Outcome Base.Prog Gen.Consts Gen.Kernels Mp4.Header Mp4.HeaderSpec Mp4.Box Mp4.San Mp4.Spec
  Mp4.HeaderProofs Mp4.LoopProofs Mp4.LoopProofsSpec Mp4.LoopProofsAccept Mp4.BoxProofsLazy.
Import ListNotations.
Open Scope N_scope.
Arguments N.add : simpl never.
Arguments N.sub : simpl never.
Arguments N.mul : simpl never.
Arguments N.div : simpl never.
Arguments N.eqb : simpl never.
Arguments N.ltb : simpl never.
Arguments N.leb : simpl never.
Arguments N.min : simpl never.

(* ================================================================== inputs given by a byte list *)
Lemma skipn_nth {A} (d : A) : forall (l : list A) p, (p < length l)%nat -> skipn p l = nth p l d :: skipn (S p) l.
Proof.
  induction l as [|x r IH]; intros p H; [cbn in H; lia|].
  destruct p as [|p]; [reflexivity|]. cbn [skipn nth]. cbn [length] in H. rewrite (IH p) by lia. reflexivity.
Qed.

Lemma firstn_min_length {A} (l : list A) a : firstn (Nat.min a (length l)) l = firstn a l.
Proof.
  destruct (Nat.le_ge_cases a (length l)).
  - rewrite Nat.min_l by assumption. reflexivity.
  - rewrite Nat.min_r by assumption. rewrite firstn_all. symmetry. apply firstn_all2. assumption.
Qed.

Section ListInput.
Variable I : input.
Variable L : bytes.
Hypothesis Hlen : ilen I = blen L.
Hypothesis Hget : forall i, iget I i = nth (N.to_nat i) L x00.

Lemma iread_L : forall n p, (N.to_nat p + n <= length L)%nat -> iread I p n = firstn n (skipn (N.to_nat p) L).
Proof.
  induction n as [|n IH]; intros p H; [reflexivity|].
  cbn [iread]. rewrite Hget, IH by lia. rewrite (skipn_nth x00 L (N.to_nat p)) by lia.
  cbn [firstn]. do 2 f_equal. f_equal. lia.
Qed.

Lemma window_L p : p <= blen L -> window I p = firstn 32 (skipn (N.to_nat p) L).
Proof.
  intros H. unfold window, blen in *. rewrite Hlen. unfold blen. rewrite iread_L.
  - replace (N.to_nat (N.min 32 (N.of_nat (length L) - p))) with (Nat.min 32 (length (skipn (N.to_nat p) L))).
    + apply firstn_min_length.
    + rewrite skipn_length. lia.
  - lia.
Qed.

Section Box.
Variable p : N.
Variable h : header.
Variables payload rest : bytes.
Hypothesis Hat : skipn (N.to_nat p) L = hdr_put h ++ payload ++ rest.
Hypothesis Hwf : hdr_wf h = true.
Hypothesis Hsz : box_size_of h = Some (encoded_len h + blen payload).

Lemma hdr_len : N.of_nat (length (hdr_put h)) = encoded_len h.
Proof. apply hdr_put_length. unfold hdr_wf in Hwf. apply andb_prop in Hwf. tauto. Qed.

Lemma enc_bounds : 8 <= encoded_len h <= 32.
Proof. unfold encoded_len. destruct (hsize h), (htype h); lia. Qed.

Lemma at_len : N.of_nat (length L) = p + encoded_len h + blen payload + blen rest /\ p <= blen L.
Proof.
  pose proof (f_equal (@length _) Hat) as E. rewrite skipn_length, !app_length in E.
  pose proof hdr_len. pose proof enc_bounds. unfold blen. lia.
Qed.

Lemma shdr_here : shdr_of (window I p) = Some (sh_of_hdr h).
Proof.
  destruct at_len as [E1 E2]. rewrite (window_L p E2), Hat.
  pose proof hdr_len. pose proof enc_bounds.
  rewrite firstn_app. rewrite (firstn_all2 (n := 32) (hdr_put h)) by lia.
  rewrite shdr_of_hdr_read, hdr_read_put by exact Hwf. reflexivity.
Qed.

Definition the_box : tbox :=
  {| tb_off := p; tb_type := sh_type_of (htype h); tb_hlen := encoded_len h; tb_size := encoded_len h + blen payload |}.

Lemma tile_step f :
  tile (S f) None I p =
  match tile f None I (p + (encoded_len h + blen payload)) with None => None | Some r => Some (the_box :: r) end.
Proof.
  destruct at_len as [E1 E2]. pose proof enc_bounds.
  rewrite tile_S. rewrite Hlen. unfold blen in *.
  destruct (N.leb_spec (N.of_nat (length L)) p); [lia|].
  unfold next_box. rewrite shdr_here. unfold resolve. cbn [sh_of_hdr sh_size sh_len sh_type]. rewrite Hsz.
  destruct (N.ltb_spec (encoded_len h + N.of_nat (length payload)) (encoded_len h)); [lia|].
  unfold tb_end. cbn [tb_off tb_size].
  destruct (N.ltb_spec (N.of_nat (length L)) (p + (encoded_len h + N.of_nat (length payload)))); [lia|]. reflexivity.
Qed.

Lemma payload_here : tb_payload I the_box = payload.
Proof.
  destruct at_len as [E1 E2]. pose proof hdr_len as HL. unfold tb_payload, the_box. cbn [tb_off tb_hlen tb_size].
  unfold blen in *.
  rewrite iread_L by lia.
  replace (N.to_nat (p + encoded_len h)) with (N.to_nat p + length (hdr_put h))%nat by lia.
  rewrite <- skipn_add, Hat, skipn_app_len by reflexivity.
  replace (N.to_nat (encoded_len h + N.of_nat (length payload) - encoded_len h)) with (length payload) by lia.
  apply firstn_app_len. reflexivity.
Qed.

Lemma size_here : iread I p 4 = firstn 4 (hdr_put h).
Proof.
  destruct at_len as [E1 E2]. pose proof hdr_len. pose proof enc_bounds. unfold blen in *.
  rewrite iread_L by lia. rewrite Hat, firstn_app.
  replace (4 - length (hdr_put h))%nat with 0%nat by lia. cbn [firstn]. apply app_nil_r.
Qed.

End Box.

Lemma tile_end f : tile f None I (blen L) = Some [].
Proof. destruct f; cbn [tile]; rewrite Hlen, N.leb_refl, N.eqb_refl; reflexivity. Qed.

End ListInput.

(* ================================================================== the metadata as an input *)
Lemma md_input_len md z : ilen (md_input md z) = blen (md ++ zeros (N.to_nat z)).
Proof. unfold md_input, input_of_exts, blen. cbn [ilen]. rewrite app_length. unfold zeros. rewrite repeat_length. lia. Qed.

Lemma md_input_get md z i : iget (md_input md z) i = nth (N.to_nat i) (md ++ zeros (N.to_nat z)) x00.
Proof.
  unfold md_input, input_of_exts. cbn [iget map fst snd ext_get].
  destruct (N.ltb_spec i (0 + N.of_nat (length md))) as [H|H].
  - replace (0 <=? i) with true by (symmetry; apply N.leb_le; lia). cbn [andb].
    rewrite app_nth1 by lia. f_equal. lia.
  - rewrite andb_false_r. rewrite app_nth2 by lia. unfold zeros. symmetry.
    destruct (Nat.lt_ge_cases (N.to_nat i - length md) (N.to_nat z)).
    + apply nth_repeat.
    + apply nth_overflow. rewrite repeat_length. assumption.
Qed.

(* explicit-size headers as the constructors make them *)
Record good_hdr (t : bytes) (n : N) (h : header) : Prop := {
  gh_type : htype h = FourCC t;
  gh_wf : hdr_wf h = true;
  gh_size : box_size_of h = Some (encoded_len h + n);
  gh_nz : be2n (firstn 4 (hdr_put h)) <> 0
}.

Lemma good_of_post t n h : ctor_post (FourCC t) n h -> good_hdr t n h.
Proof.
  intros (H1 & H2 & H3 & H4 & H5 & H6 & H7 & H8 & H9). split; try assumption.
  - rewrite H4, H5. reflexivity.
  - fold (size_field32 h). destruct (is_ext h) eqn:E.
    + destruct (H8 eq_refl) as [E1 _]. rewrite E1. discriminate.
    + destruct (H7 eq_refl) as [E1 _]. exact E1.
Qed.

Lemma good_with_data_size t n h : length t = 4%nat -> bytes_eqb t UUID4 = false ->
  with_data_size (FourCC t) n = Ok h -> good_hdr t n h.
Proof.
  intros Ht Hu H. apply good_of_post.
  assert (Hwf : type_wf (FourCC t) = true) by (cbn [type_wf]; rewrite Ht, Hu; reflexivity).
  assert (Hn : n <= U64MAX).
  { unfold with_data_size in H. destruct (N.leb_spec n U32MAX); [unfold U32MAX, U64MAX in *; lia|].
    destruct (N.leb_spec (n + encoded_len {| htype := FourCC t; hsize := Ext 0 |}) U64MAX); [lia | discriminate]. }
  destruct (header_constructors (FourCC t) n Hwf Hn) as (H1 & _). apply H1. exact H.
Qed.

Lemma good_with_u32 t n : length t = 4%nat -> bytes_eqb t UUID4 = false -> n <= U32MAX ->
  good_hdr t n (with_u32_data_size (FourCC t) n).
Proof.
  intros Ht Hu Hn. apply good_of_post. apply with_u32_data_size_post; [|exact Hn].
  cbn [type_wf]. rewrite Ht, Hu. reflexivity.
Qed.

Lemma forallb_zeros k : forallb (fun b => b2n b =? 0) (zeros k) = true.
Proof. unfold zeros. induction k as [|k IH]; [reflexivity|]. cbn [repeat forallb]. rewrite IH. reflexivity. Qed.

(* two boxes: ftyp, moov *)
Lemma shape_two fh fp mh mp :
  good_hdr t_ftyp (blen fp) fh -> good_hdr t_moov (blen mp) mh ->
  let I := md_input (hdr_put fh ++ fp ++ hdr_put mh ++ mp) 0 in
  metadata_shape I = Some (fp, mp, 0) /\ explicit_sizes I = true.
Proof.
  intros [F1 F2 F3 F4] [M1 M2 M3 M4] I.
  set (L := (hdr_put fh ++ fp ++ hdr_put mh ++ mp) ++ zeros (N.to_nat 0)).
  assert (HL : L = hdr_put fh ++ fp ++ hdr_put mh ++ mp ++ []) by (unfold L; cbn [N.to_nat zeros repeat]; rewrite <- !app_assoc; reflexivity).
  pose proof (md_input_len (hdr_put fh ++ fp ++ hdr_put mh ++ mp) 0) as Hlen.
  pose proof (md_input_get (hdr_put fh ++ fp ++ hdr_put mh ++ mp) 0) as Hget. fold I L in Hlen, Hget.
  assert (A1 : skipn (N.to_nat 0) L = hdr_put fh ++ fp ++ (hdr_put mh ++ mp ++ [])) by (rewrite HL; reflexivity).
  pose proof (hdr_len fh F2) as LF. pose proof (hdr_len mh M2) as LM.
  set (p2 := 0 + (encoded_len fh + blen fp)).
  assert (A2 : skipn (N.to_nat p2) L = hdr_put mh ++ mp ++ []).
  { rewrite HL. replace (N.to_nat p2) with (length (hdr_put fh) + length fp)%nat by (unfold p2, blen; lia).
    rewrite <- skipn_add. rewrite skipn_app_len by reflexivity. rewrite skipn_app_len by reflexivity. reflexivity. }
  assert (Eend : p2 + (encoded_len mh + blen mp) = blen L).
  { rewrite HL. unfold p2, blen. rewrite !app_length. cbn [length]. lia. }
  assert (T : tile 4 None I 0 = Some [the_box 0 fh fp; the_box p2 mh mp]).
  { rewrite (tile_step I L Hlen Hget 0 fh fp _ A1 F2 F3 3).
    fold p2. rewrite (tile_step I L Hlen Hget p2 mh mp _ A2 M2 M3 2).
    rewrite Eend, (tile_end I L Hlen). reflexivity. }
  split.
  - unfold metadata_shape. rewrite T.
    rewrite (payload_here I L Hlen Hget 0 fh fp _ A1 F2), (payload_here I L Hlen Hget p2 mh mp _ A2 M2).
    unfold is, the_box. cbn [tb_type]. rewrite F1, M1. cbn [sh_type_of].
    change (beq t_ftyp FTYP) with true. change (beq t_moov MOOV) with true. reflexivity.
  - unfold explicit_sizes. rewrite T. cbn [forallb the_box tb_off].
    rewrite (size_here I L Hlen Hget 0 fh fp _ A1 F2), (size_here I L Hlen Hget p2 mh mp _ A2 M2).
    apply N.eqb_neq in F4. apply N.eqb_neq in M4. rewrite F4, M4. reflexivity.
Qed.

(* three boxes: ftyp, moov, free (header in the byte string, payload = the run of zeros) *)
Lemma shape_three fh fp mh mp ph z :
  good_hdr t_ftyp (blen fp) fh -> good_hdr t_moov (blen mp) mh -> good_hdr t_free z ph ->
  let I := md_input (hdr_put fh ++ fp ++ hdr_put mh ++ mp ++ hdr_put ph) z in
  metadata_shape I = Some (fp, mp, encoded_len ph + z) /\ explicit_sizes I = true.
Proof.
  intros [F1 F2 F3 F4] [M1 M2 M3 M4] [P1 P2 P3 P4] I.
  set (md := hdr_put fh ++ fp ++ hdr_put mh ++ mp ++ hdr_put ph) in *.
  set (Z := zeros (N.to_nat z)).
  assert (BZ : blen Z = z) by (unfold Z, blen, zeros; rewrite repeat_length; lia).
  set (L := md ++ Z).
  assert (HL : L = hdr_put fh ++ fp ++ hdr_put mh ++ mp ++ hdr_put ph ++ Z ++ [])
    by (unfold L, md; rewrite <- !app_assoc, app_nil_r; reflexivity).
  pose proof (md_input_len md z) as Hlen. pose proof (md_input_get md z) as Hget. fold I Z L in Hlen, Hget.
  assert (A1 : skipn (N.to_nat 0) L = hdr_put fh ++ fp ++ (hdr_put mh ++ mp ++ hdr_put ph ++ Z ++ [])) by (rewrite HL; reflexivity).
  pose proof (hdr_len fh F2) as LF. pose proof (hdr_len mh M2) as LM. pose proof (hdr_len ph P2) as LP.
  set (p2 := 0 + (encoded_len fh + blen fp)).
  assert (A2 : skipn (N.to_nat p2) L = hdr_put mh ++ mp ++ (hdr_put ph ++ Z ++ [])).
  { rewrite HL. replace (N.to_nat p2) with (length (hdr_put fh) + length fp)%nat by (unfold p2, blen; lia).
    rewrite <- skipn_add. rewrite skipn_app_len by reflexivity. rewrite skipn_app_len by reflexivity. reflexivity. }
  set (p3 := p2 + (encoded_len mh + blen mp)).
  assert (A3 : skipn (N.to_nat p3) L = hdr_put ph ++ Z ++ []).
  { replace (N.to_nat p3) with (N.to_nat p2 + (length (hdr_put mh) + length mp))%nat by (unfold p3, blen; lia).
    rewrite <- skipn_add, A2. rewrite <- skipn_add. rewrite skipn_app_len by reflexivity. rewrite skipn_app_len by reflexivity.
    reflexivity. }
  assert (Eend : p3 + (encoded_len ph + blen Z) = blen L).
  { rewrite HL. unfold p3, p2, blen. rewrite !app_length. cbn [length]. lia. }
  assert (P3' : box_size_of ph = Some (encoded_len ph + blen Z)) by (rewrite BZ; exact P3).
  assert (T : tile 4 None I 0 = Some [the_box 0 fh fp; the_box p2 mh mp; the_box p3 ph Z]).
  { rewrite (tile_step I L Hlen Hget 0 fh fp _ A1 F2 F3 3).
    fold p2. rewrite (tile_step I L Hlen Hget p2 mh mp _ A2 M2 M3 2).
    fold p3. rewrite (tile_step I L Hlen Hget p3 ph Z _ A3 P2 P3' 1).
    rewrite Eend, (tile_end I L Hlen). reflexivity. }
  split.
  - unfold metadata_shape. rewrite T.
    rewrite (payload_here I L Hlen Hget 0 fh fp _ A1 F2), (payload_here I L Hlen Hget p2 mh mp _ A2 M2),
            (payload_here I L Hlen Hget p3 ph Z _ A3 P2).
    unfold is. cbn [the_box tb_type tb_size]. rewrite F1, M1, P1. cbn [sh_type_of].
    change (beq t_ftyp FTYP) with true. change (beq t_moov MOOV) with true. change (beq t_free FREE) with true. cbn [andb].
    unfold Z at 1. rewrite forallb_zeros. rewrite BZ. reflexivity.
  - unfold explicit_sizes. rewrite T. cbn [forallb the_box tb_off].
    rewrite (size_here I L Hlen Hget 0 fh fp _ A1 F2), (size_here I L Hlen Hget p2 mh mp _ A2 M2),
            (size_here I L Hlen Hget p3 ph Z _ A3 P2).
    apply N.eqb_neq in F4. apply N.eqb_neq in M4. apply N.eqb_neq in P4. rewrite F4, M4, P4. reflexivity.
Qed.

(* ================================================================== what finish returns *)
Lemma finish_shape s o md pad : finish_p s = Ok o -> o_metadata o = Some (md, pad) ->
  exists fp kids off mp psz,
    st_ftyp s = Some fp /\ st_moov s = Some (kids, off) /\ blen mp = blen (put_nodes kids) /\
    metadata_shape (md_input md pad) = Some (fp, mp, psz) /\
    explicit_sizes (md_input md pad) = true /\
    ((psz = 0 /\ pad = 0) \/ psz = 8 + pad).
Proof.
  unfold finish_p. destruct (st_ftyp s) as [fp|]; [|discriminate].
  destruct (st_moov s) as [[kids mo]|]; [|discriminate]. destruct (st_data s) as [d|]; [|discriminate].
  destruct (mo <? s_off d). { intros H. injection H as <-. discriminate. }
  destruct (with_data_size (FourCC t_ftyp) _) as [fh| | | |] eqn:Efh; try discriminate. cbn [rbind].
  destruct (with_data_size (FourCC t_moov) _) as [mh| | | |] eqn:Emh; try discriminate. cbn [rbind].
  destruct (add_u64 6 (encoded_len fh) _) as [fl| | | |]; try discriminate. cbn [rbind].
  destruct (add_u64 6 (encoded_len mh) _) as [ml| | | |]; try discriminate. cbn [rbind].
  destruct (add_u64 6 fl ml) as [mdl| | | |]; try discriminate. cbn [rbind].
  pose proof (good_with_data_size t_ftyp _ fh eq_refl eq_refl Efh) as GF.
  pose proof (good_with_data_size t_moov _ mh eq_refl eq_refl Emh) as GM.
  fold (blen fp) in GF. fold (blen (put_nodes kids)) in GM.
  destruct (_ && _).
  { intros H E. injection H as <-. cbn [o_metadata] in E. injection E as <- <-.
    destruct (shape_two fh fp mh (put_nodes kids) GF GM) as [S1 S2].
    exists fp, kids, mo, (put_nodes kids), 0. repeat split; try assumption; try reflexivity. left. split; reflexivity. }
  destruct (_ && _ && _ && _) eqn:Epad.
  { intros H E. injection H as <-. cbn [o_metadata] in E. injection E as <- <-.
    apply andb_prop in Epad. destruct Epad as [Epad _]. apply andb_prop in Epad. destruct Epad as [Epad E3].
    apply andb_prop in Epad. destruct Epad as [_ E2]. apply N.leb_le in E2, E3. unfold PAD_HEADER_SIZE, MAX_PAD_SIZE in *.
    set (g := s_off d - mdl) in *.
    assert (GP : good_hdr t_free (g - 8) (with_u32_data_size (FourCC t_free) (g - 8)))
      by (apply good_with_u32; [reflexivity | reflexivity | unfold U32MAX; lia]).
    destruct (shape_three fh fp mh (put_nodes kids) _ (g - 8) GF GM GP) as [S1 S2].
    exists fp, kids, mo, (put_nodes kids), (encoded_len (with_u32_data_size (FourCC t_free) (g - 8)) + (g - 8)).
    repeat split; try assumption; try reflexivity.
    right. clear S1 S2 GP. unfold with_u32_data_size, encoded_len. cbn [htype hsize].
    match goal with |- context [?a <=? U32MAX] => destruct (N.leb_spec a U32MAX) end; cbn [hsize htype]; unfold U32MAX in *; lia. }
  destruct (displacement _ _) as [dl|]; [|discriminate].
  destruct (each_trak kids _) as [[kids' u]| | | |] eqn:Et; try discriminate. cbn [rbind fst].
  intros H E. injection H as <-. cbn [o_metadata] in E. injection E as <- <-.
  pose proof (each_trak_shift_length _ _ _ _ _ Et) as Hl.
  assert (GM' : good_hdr t_moov (blen (put_nodes kids')) mh) by (unfold blen in *; rewrite Hl; exact GM).
  destruct (shape_two fh fp mh (put_nodes kids') GF GM') as [S1 S2].
  exists fp, kids, mo, (put_nodes kids'), 0. repeat split; try assumption; try reflexivity.
  - unfold blen. rewrite Hl. reflexivity.
  - left. split; reflexivity.
Qed.

(* ================================================================== C02 (a) *)
Theorem metadata_is_boxes cfg lenient ms inp fuel o md pad :
  mp4_sanitize cfg lenient ms inp fuel = Ok o -> o_metadata o = Some (md, pad) ->
  exists fp mp psz,
    metadata_shape (md_input md pad) = Some (fp, mp, psz) /\
    explicit_sizes (md_input md pad) = true /\
    ((psz = 0 /\ pad = 0) \/ psz = 8 + pad).
Proof.
  rewrite sanitize_run. unfold san_pure.
  destruct (loop_pure inp lenient ms fuel cfg st0 0) as [[s q]| | | |]; try discriminate. cbn [rbind fst snd].
  destruct (check_end_p inp q); try discriminate. cbn [rbind].
  intros H E. destruct (finish_shape s o md pad H E) as (fp & kids & off & mp & psz & _ & _ & _ & S1 & S2 & S3).
  exists fp, mp, psz. repeat split; assumption.
Qed.

(* the same with the link to the input: the ftyp payload is the input's, the moov payload has the length of the
   input's last moov payload (its content is C01/C04's subject) *)
Theorem metadata_is_boxes_of_input cfg lenient inp fuel o md pad :
  ilen inp <= U64MAX -> (forall t, cumulative_mdat_box_size cfg = Some t -> t <= U32MAX) ->
  mp4_sanitize cfg lenient U64MAX' inp fuel = Ok o -> o_metadata o = Some (md, pad) ->
  exists bs f m mp psz,
    tiling (cumulative_mdat_box_size cfg) inp = Some bs /\ the_ftyp bs = Some f /\ last_moov bs = Some m /\
    metadata_shape (md_input md pad) = Some (tb_payload inp f, mp, psz) /\
    blen mp = blen (tb_payload inp m) /\
    explicit_sizes (md_input md pad) = true /\
    ((psz = 0 /\ pad = 0) \/ psz = 8 + pad).
Proof.
  intros Hl Hc H E.
  assert (Hms : ilen inp <= U64MAX') by exact Hl.
  assert (Hms64 : U64MAX' <= U64MAX) by (unfold U64MAX', U64MAX; lia).
  destruct (tiling (cumulative_mdat_box_size cfg) inp) as [bs|] eqn:Et.
  2:{ pose proof (sanitize_untiled inp lenient U64MAX' cfg Hms Hms64 Hc fuel Et) as Hn. rewrite H in Hn. discriminate. }
  destruct (sanitize_tiled inp lenient U64MAX' cfg Hms Hms64 Hc fuel bs Et) as [R|[R _]]; [|congruence].
  rewrite H in R. symmetry in R.
  destruct (fold_boxes cfg inp st0 bs) as [s'| | | |] eqn:Ef; try discriminate. cbn [rbind] in R.
  destruct (finish_shape s' o md pad R E) as (fp & kids & off & mp & psz & Sf & Sm & Sl & S1 & S2 & S3).
  pose proof (fold_ftyp cfg inp bs st0 s' Ef) as Ff. cbn [st0 st_ftyp] in Ff. rewrite Sf in Ff.
  pose proof (fold_moov cfg inp bs st0 s' Ef) as Fm. rewrite Sm in Fm.
  destruct (the_ftyp bs) as [f|] eqn:Etf; [|discriminate]. injection Ff as ->.
  destruct (last_moov bs) as [m|] eqn:Elm; [|cbn in Fm; discriminate].
  destruct Fm as (kids0 & Hk & Em). injection Em as <- _.
  exists bs, f, m, mp, psz.
  split; [reflexivity|]. split; [exact Etf|]. split; [exact Elm|]. split; [exact S1|].
  split; [rewrite Sl, (moov_check_put _ _ Hk); reflexivity|]. split; [exact S2 | exact S3].
Qed.
