(* Proofs about Mp4/Header.v : header round trip (both directions), length agreement, constructors. *)
From Coq Require Import List NArith Bool Lia Arith.
From Coq.Strings Require Import Byte.
From MS Require Import Base.Bytes Base.Outcome Mp4.Header Mp4.HeaderSpec.
Import ListNotations.
Open Scope N_scope.
Arguments N.add : simpl never.
Arguments N.sub : simpl never.
Arguments N.mul : simpl never.
Arguments N.div : simpl never.
Arguments N.modulo : simpl never.
Arguments N.pow : simpl never.
Arguments N.eqb : simpl never.
Arguments N.ltb : simpl never.
Arguments N.leb : simpl never.

(* ------------------------------------------------------------------ list helpers *)
Lemma firstn_app_len {A} (a b : list A) k : length a = k -> firstn k (a ++ b) = a.
Proof.
  intros <-. rewrite firstn_app, Nat.sub_diag, firstn_all. cbn [firstn]. apply app_nil_r.
Qed.

Lemma skipn_app_len {A} (a b : list A) k : length a = k -> skipn k (a ++ b) = b.
Proof.
  intros <-. rewrite skipn_app, Nat.sub_diag, skipn_all. reflexivity.
Qed.

Lemma ltb_len_false {A} (l : list A) k : (k <= length l)%nat -> Nat.ltb (length l) k = false.
Proof. intros H. apply Nat.ltb_ge. exact H. Qed.

Lemma bytes_eqb_eq a b : bytes_eqb a b = true <-> a = b.
Proof. unfold bytes_eqb. destruct (list_eq_dec Byte.byte_eq_dec a b); split; congruence. Qed.

Lemma bytes_eqb_refl a : bytes_eqb a a = true.
Proof. apply bytes_eqb_eq. reflexivity. Qed.

Lemma bytes_eqb_neq a b : bytes_eqb a b = false <-> a <> b.
Proof. unfold bytes_eqb. destruct (list_eq_dec Byte.byte_eq_dec a b); split; congruence. Qed.

Lemma pow256_4 : 256 ^ N.of_nat 4 = 4294967296. Proof. reflexivity. Qed.
Lemma pow256_8 : 256 ^ N.of_nat 8 = 18446744073709551616. Proof. reflexivity. Qed.

Lemma skipn_add {A} (a b : nat) (l : list A) : skipn a (skipn b l) = skipn (b + a) l.
Proof.
  revert l; induction b as [|b IH]; intros l; [reflexivity|].
  destruct l as [|x l]; [destruct a; reflexivity|]. cbn [skipn Nat.add]. apply IH.
Qed.

Lemma split8 (l : bytes) : (8 <= length l)%nat ->
  l = firstn 4 l ++ firstn 4 (skipn 4 l) ++ skipn 8 l.
Proof.
  intros H. rewrite <- (firstn_skipn 4 l) at 1. f_equal.
  rewrite <- (firstn_skipn 4 (skipn 4 l)) at 1. f_equal.
  rewrite skipn_add. reflexivity.
Qed.

(* ------------------------------------------------------------------ the three parts of a header *)
Definition size_field (s : box_size) : bytes :=
  match s with UntilEof => n2be 4 0 | Ext _ => n2be 4 1 | Size n => n2be 4 n end.
Definition type_field (t : box_type) : bytes := match t with FourCC t => t | Uuid _ => UUID4 end.
Definition ext_field (s : box_size) : bytes := match s with Ext n => n2be 8 n | _ => [] end.
Definition uuid_field (t : box_type) : bytes := match t with Uuid u => u | _ => [] end.

Lemma hdr_put_parts h :
  hdr_put h = size_field (hsize h) ++ type_field (htype h) ++ ext_field (hsize h) ++ uuid_field (htype h).
Proof. reflexivity. Qed.

Lemma length_size_field s : length (size_field s) = 4%nat.
Proof. destruct s; apply length_n2be. Qed.

Lemma length_type_field t : type_wf t = true -> length (type_field t) = 4%nat.
Proof.
  destruct t as [n|u]; cbn [type_wf type_field]; intros H; [|reflexivity].
  apply andb_prop in H. destruct H as [H _]. apply Nat.eqb_eq in H. exact H.
Qed.

Lemma length_ext_field s : length (ext_field s) = match s with Ext _ => 8%nat | _ => 0%nat end.
Proof. destruct s; cbn [ext_field length]; try reflexivity; apply length_n2be. Qed.

Lemma length_uuid_field t : type_wf t = true ->
  length (uuid_field t) = match t with Uuid _ => 16%nat | _ => 0%nat end.
Proof.
  destruct t as [n|u]; cbn [type_wf uuid_field length]; intros H; [reflexivity|].
  apply Nat.eqb_eq in H. exact H.
Qed.

(* ------------------------------------------------------------------ length agreement *)
Lemma hdr_put_length h : type_wf (htype h) = true -> N.of_nat (length (hdr_put h)) = encoded_len h.
Proof.
  intros Ht. rewrite hdr_put_parts. rewrite !app_length.
  rewrite length_size_field, (length_type_field _ Ht), length_ext_field, (length_uuid_field _ Ht).
  unfold encoded_len. destruct (hsize h), (htype h); reflexivity.
Qed.

(* ------------------------------------------------------------------ read (put h ++ r) = (h, r) *)
Lemma be2n_size_field s : size_wf s = true ->
  be2n (size_field s) = match s with UntilEof => 0 | Ext _ => 1 | Size n => n end.
Proof.
  destruct s as [|n|n]; cbn [size_field size_wf]; intros H; try reflexivity.
  apply andb_prop in H. destruct H as [_ H]. apply N.leb_le in H. unfold U32MAX in H.
  apply be2n_n2be. rewrite pow256_4. lia.
Qed.

Lemma hdr_read_put h r : hdr_wf h = true -> hdr_read (hdr_put h ++ r) = Some (h, r).
Proof.
  intros Hwf. unfold hdr_wf in Hwf. apply andb_prop in Hwf. destruct Hwf as [Ht Hs].
  destruct h as [t s]. cbn [htype hsize] in *.
  rewrite hdr_put_parts. cbn [htype hsize].
  pose proof (length_size_field s) as L1.
  pose proof (length_type_field t Ht) as L2.
  pose proof (length_ext_field s) as L3.
  pose proof (length_uuid_field t Ht) as L4.
  set (A := size_field s) in *. set (T := type_field t) in *.
  set (E := ext_field s) in *. set (U := uuid_field t) in *.
  replace ((A ++ T ++ E ++ U) ++ r) with (A ++ T ++ (E ++ U ++ r))
    by (rewrite <- !app_assoc; reflexivity).
  unfold hdr_read.
  rewrite ltb_len_false by (rewrite !app_length; lia).
  rewrite (firstn_app_len A _ 4 L1).
  rewrite (skipn_app_len A _ 4 L1).
  rewrite (firstn_app_len T _ 4 L2).
  replace (skipn 8 (A ++ T ++ E ++ U ++ r)) with (E ++ U ++ r).
  2:{ rewrite (app_assoc A T). symmetry. apply skipn_app_len. rewrite app_length. lia. }
  unfold A. rewrite (be2n_size_field s Hs).
  assert (Huu : bytes_eqb T UUID4 = match t with Uuid _ => true | _ => false end).
  { unfold T. destruct t as [n|u]; cbn [type_field type_wf] in *.
    - apply andb_prop in Ht. destruct Ht as [_ Ht]. apply negb_true_iff in Ht. exact Ht.
    - apply bytes_eqb_refl. }
  rewrite Huu.
  destruct s as [|n|n]; cbn [size_wf] in Hs.
  - (* UntilEof *)
    change (0 =? 0) with true. cbv iota. unfold E, ext_field. cbn [app].
    destruct t as [nm|u]; subst T U; cbn [uuid_field type_field app] in *.
    + reflexivity.
    + rewrite ltb_len_false by (rewrite app_length; lia).
      rewrite (firstn_app_len u r 16 L4), (skipn_app_len u r 16 L4). reflexivity.
  - (* Size *)
    apply andb_prop in Hs. destruct Hs as [Hlo Hhi]. apply N.leb_le in Hlo.
    replace (n =? 0) with false by (symmetry; apply N.eqb_neq; lia).
    replace (n =? 1) with false by (symmetry; apply N.eqb_neq; lia).
    cbv iota. unfold E, ext_field. cbn [app].
    destruct t as [nm|u]; subst T U; cbn [uuid_field type_field app] in *.
    + reflexivity.
    + rewrite ltb_len_false by (rewrite app_length; lia).
      rewrite (firstn_app_len u r 16 L4), (skipn_app_len u r 16 L4). reflexivity.
  - (* Ext *)
    apply N.leb_le in Hs. unfold U64MAX in Hs.
    change (1 =? 0) with false. change (1 =? 1) with true. cbv iota.
    rewrite ltb_len_false by (rewrite !app_length; lia).
    subst E. cbn [ext_field] in *.
    rewrite (firstn_app_len (n2be 8 n) (U ++ r) 8 (length_n2be 8 n)),
            (skipn_app_len (n2be 8 n) (U ++ r) 8 (length_n2be 8 n)).
    rewrite be2n_n2be by (rewrite pow256_8; lia).
    destruct t as [nm|u]; subst T U; cbn [uuid_field type_field app] in *.
    + reflexivity.
    + rewrite ltb_len_false by (rewrite app_length; lia).
      rewrite (firstn_app_len u r 16 L4), (skipn_app_len u r 16 L4). reflexivity.
Qed.

(* ------------------------------------------------------------------ read l = (h, r) -> l = put h ++ r *)
Lemma n2be4_be2n (a : bytes) : length a = 4%nat -> n2be 4 (be2n a) = a.
Proof. intros H. rewrite <- H. apply n2be_be2n. Qed.
Lemma n2be8_be2n (a : bytes) : length a = 8%nat -> n2be 8 (be2n a) = a.
Proof. intros H. rewrite <- H. apply n2be_be2n. Qed.

Lemma be2n4_lt (a : bytes) : length a = 4%nat -> be2n a <= U32MAX.
Proof. intros H. pose proof (be2n_lt a) as B. rewrite H, pow256_4 in B. unfold U32MAX. lia. Qed.
Lemma be2n8_lt (a : bytes) : length a = 8%nat -> be2n a <= U64MAX.
Proof. intros H. pose proof (be2n_lt a) as B. rewrite H, pow256_8 in B. unfold U64MAX. lia. Qed.

(* the type part of the reader, shared by the three size forms *)
Lemma read_type_inv name r0 size h r :
  length name = 4%nat ->
  (if bytes_eqb name UUID4
   then (if Nat.ltb (length r0) 16 then None
         else Some ({| htype := Uuid (firstn 16 r0); hsize := size |}, skipn 16 r0))
   else Some ({| htype := FourCC name; hsize := size |}, r0)) = Some (h, r) ->
  hsize h = size /\ type_wf (htype h) = true /\
  name ++ r0 = type_field (htype h) ++ uuid_field (htype h) ++ r /\
  (match htype h with Uuid _ => r0 = uuid_field (htype h) ++ r | FourCC _ => r0 = r end).
Proof.
  intros Hn. destruct (bytes_eqb name UUID4) eqn:Eu.
  - destruct (Nat.ltb (length r0) 16) eqn:El; [discriminate|].
    apply Nat.ltb_ge in El.
    assert (L : length (firstn 16 r0) = 16%nat) by (apply firstn_length_le; exact El).
    pose proof (firstn_skipn 16 r0) as FS.
    apply bytes_eqb_eq in Eu. subst name.
    set (u := firstn 16 r0) in *. set (r1 := skipn 16 r0) in *. clearbody u r1.
    intros H. injection H as <- <-. cbn [htype hsize type_wf type_field uuid_field].
    split; [reflexivity|]. split; [rewrite L; reflexivity|].
    split; [rewrite FS; reflexivity | symmetry; exact FS].
  - intros H. injection H as <- <-. cbn [htype hsize type_wf type_field uuid_field app].
    repeat split. rewrite Hn, Eu. reflexivity.
Qed.

Lemma hdr_read_inv l h r : hdr_read l = Some (h, r) -> hdr_wf h = true /\ l = hdr_put h ++ r.
Proof.
  unfold hdr_read. destruct (Nat.ltb (length l) 8) eqn:E8; [discriminate|].
  apply Nat.ltb_ge in E8.
  pose proof (split8 l E8) as Hl.
  assert (LA : length (firstn 4 l) = 4%nat) by (apply firstn_length_le; lia).
  assert (LT : length (firstn 4 (skipn 4 l)) = 4%nat)
    by (apply firstn_length_le; rewrite skipn_length; lia).
  set (A := firstn 4 l) in *. set (T := firstn 4 (skipn 4 l)) in *. set (R := skipn 8 l) in *.
  destruct (be2n A =? 0) eqn:E0.
  - (* UntilEof *)
    apply N.eqb_eq in E0. intros H.
    destruct (read_type_inv T R UntilEof h r LT H) as (Hs & Ht & Hb & _).
    split.
    + unfold hdr_wf. rewrite Ht, Hs. reflexivity.
    + rewrite Hl. rewrite hdr_put_parts, Hs. cbn [size_field ext_field app].
      rewrite <- E0, (n2be4_be2n A LA). rewrite <- !app_assoc. f_equal. exact Hb.
  - destruct (be2n A =? 1) eqn:E1.
    + (* Ext *)
      apply N.eqb_eq in E1.
      destruct (Nat.ltb (length R) 8) eqn:ER; [discriminate|]. apply Nat.ltb_ge in ER.
      assert (LE : length (firstn 8 R) = 8%nat) by (apply firstn_length_le; exact ER).
      intros H.
      destruct (read_type_inv T (skipn 8 R) (Ext (be2n (firstn 8 R))) h r LT H) as (Hs & Ht & _ & Hb).
      split.
      * unfold hdr_wf. rewrite Ht, Hs. cbn [size_wf andb]. apply N.leb_le. apply be2n8_lt. exact LE.
      * rewrite Hl. rewrite hdr_put_parts, Hs. cbn [size_field ext_field].
        rewrite <- E1, (n2be4_be2n A LA), (n2be8_be2n _ LE). rewrite <- !app_assoc. f_equal.
        rewrite <- (firstn_skipn 8 R) at 1.
        destruct (htype h) as [nm|u] eqn:Eh; cbn [type_field uuid_field app] in *.
        -- assert (T = nm).
           { unfold hdr_read in H. destruct (bytes_eqb T UUID4);
               [destruct (Nat.ltb (length (skipn 8 R)) 16); [discriminate|]|];
               injection H as H _; rewrite <- H in Eh; cbn [htype] in Eh; congruence. }
           subst nm. rewrite Hb. reflexivity.
        -- assert (T = UUID4).
           { destruct (bytes_eqb T UUID4) eqn:Eu; [apply bytes_eqb_eq; exact Eu|].
             injection H as H _. rewrite <- H in Eh. cbn [htype] in Eh. discriminate. }
           rewrite H0, Hb. reflexivity.
    + (* Size *)
      apply N.eqb_neq in E0. apply N.eqb_neq in E1. intros H.
      destruct (read_type_inv T R (Size (be2n A)) h r LT H) as (Hs & Ht & Hb & _).
      split.
      * unfold hdr_wf. rewrite Ht, Hs. cbn [size_wf andb].
        pose proof (be2n4_lt A LA). apply andb_true_intro. split; apply N.leb_le; lia.
      * rewrite Hl. rewrite hdr_put_parts, Hs. cbn [size_field ext_field app].
        rewrite (n2be4_be2n A LA). rewrite <- !app_assoc. f_equal. exact Hb.
Qed.

Lemma header_roundtrip :
  (forall h r, hdr_wf h = true ->
     hdr_read (hdr_put h ++ r) = Some (h, r) /\ N.of_nat (length (hdr_put h)) = encoded_len h)
  /\ (forall l h r, hdr_read l = Some (h, r) -> hdr_wf h = true /\ l = hdr_put h ++ r).
Proof.
  split.
  - intros h r H. split; [apply hdr_read_put; exact H|].
    apply hdr_put_length. unfold hdr_wf in H. apply andb_prop in H. tauto.
  - apply hdr_read_inv.
Qed.

(* non-vacuity *)
Example header_roundtrip_sat :
  hdr_wf {| htype := Uuid (zeros 16); hsize := Ext 5 |} = true /\
  hdr_read (hdr_put {| htype := Uuid (zeros 16); hsize := Ext 5 |} ++ [x07]) =
    Some ({| htype := Uuid (zeros 16); hsize := Ext 5 |}, [x07]).
Proof. vm_compute. split; reflexivity. Qed.

(* what is excluded by hdr_wf really does not round-trip *)
Example fourcc_uuid_not_roundtrip :
  hdr_read (hdr_put {| htype := FourCC UUID4; hsize := Size 8 |}) = None.
Proof. vm_compute. reflexivity. Qed.
Example size1_not_roundtrip :
  hdr_read (hdr_put {| htype := FourCC [x66;x72;x65;x65]; hsize := Size 1 |}) = None.
Proof. vm_compute. reflexivity. Qed.

(* ------------------------------------------------------------------ constructors *)

Lemma short_len_val t : short_len t = match t with Uuid _ => 24 | _ => 8 end.
Proof. destruct t; reflexivity. Qed.
Lemma long_len_val t : long_len t = match t with Uuid _ => 32 | _ => 16 end.
Proof. destruct t; reflexivity. Qed.

Lemma size_field32_val h : size_wf (hsize h) = true ->
  size_field32 h = match hsize h with UntilEof => 0 | Ext _ => 1 | Size n => n end.
Proof.
  intros H. unfold size_field32. rewrite hdr_put_parts.
  rewrite (firstn_app_len _ _ 4 (length_size_field _)). apply be2n_size_field. exact H.
Qed.

Lemma size_field64_val t m : type_wf t = true -> m <= U64MAX ->
  size_field64 {| htype := t; hsize := Ext m |} = m.
Proof.
  intros Ht Hm. unfold size_field64. rewrite hdr_put_parts. cbn [htype hsize ext_field].
  rewrite (app_assoc (size_field (Ext m)) (type_field t)).
  rewrite (skipn_app_len (size_field (Ext m) ++ type_field t) (n2be 8 m ++ uuid_field t) 8)
    by (rewrite app_length, length_size_field, (length_type_field t Ht); reflexivity).
  rewrite (firstn_app_len (n2be 8 m) (uuid_field t) 8 (length_n2be 8 m)).
  apply be2n_n2be. rewrite pow256_8. unfold U64MAX in Hm. lia.
Qed.

Definition ctor_post (t : box_type) (n : N) (h : header) : Prop :=
  htype h = t /\
  hdr_wf h = true /\
  box_data_size h = Ok (Some n) /\
  box_size_of h = Some (N.of_nat (length (hdr_put h)) + n) /\
  N.of_nat (length (hdr_put h)) = encoded_len h /\
  (is_ext h = true <-> U32MAX < n + short_len t) /\
  (is_ext h = false -> size_field32 h <> 0 /\ size_field32 h <> 1 /\ size_field32 h = n + short_len t) /\
  (is_ext h = true -> size_field32 h = 1 /\ size_field64 h = n + long_len t) /\
  (forall r, hdr_read (hdr_put h ++ r) = Some (h, r)).

Lemma ctor_post_size t n : type_wf t = true -> n + short_len t <= U32MAX ->
  ctor_post t n {| htype := t; hsize := Size (n + short_len t) |}.
Proof.
  intros Ht Hn. pose proof (short_len_val t) as SL.
  assert (Hwf : hdr_wf {| htype := t; hsize := Size (n + short_len t) |} = true).
  { unfold hdr_wf. cbn [htype hsize size_wf]. rewrite Ht. cbn [andb].
    apply andb_true_intro. split; apply N.leb_le; [destruct t; lia | exact Hn]. }
  assert (Hsw : size_wf (Size (n + short_len t)) = true).
  { unfold hdr_wf in Hwf. apply andb_prop in Hwf. apply Hwf. }
  assert (Hlen := hdr_put_length {| htype := t; hsize := Size (n + short_len t) |} Ht).
  assert (EL : encoded_len {| htype := t; hsize := Size (n + short_len t) |} = short_len t) by (destruct t; reflexivity).
  assert (SF := size_field32_val {| htype := t; hsize := Size (n + short_len t) |} Hsw).
  cbn [hsize] in SF.
  unfold ctor_post.
  split; [reflexivity|]. split; [exact Hwf|].
  split.
  { unfold box_data_size, box_size_of. cbn [hsize]. rewrite EL.
    replace (n + short_len t <? short_len t) with false by (symmetry; apply N.ltb_ge; lia).
    do 2 f_equal. lia. }
  split.
  { rewrite Hlen, EL. unfold box_size_of. cbn [hsize]. f_equal. lia. }
  split; [exact Hlen|].
  split.
  { unfold is_ext. cbn [hsize]. split; [discriminate | intros H; lia]. }
  split.
  { intros _. rewrite SF. destruct t; lia. }
  split.
  { unfold is_ext. cbn [hsize]. discriminate. }
  intros r. apply hdr_read_put. exact Hwf.
Qed.

Lemma ctor_post_ext t n : type_wf t = true -> U32MAX < n + short_len t -> n + long_len t <= U64MAX ->
  ctor_post t n {| htype := t; hsize := Ext (n + long_len t) |}.
Proof.
  intros Ht Hlo Hn. pose proof (long_len_val t) as LL.
  assert (Hwf : hdr_wf {| htype := t; hsize := Ext (n + long_len t) |} = true).
  { unfold hdr_wf. cbn [htype hsize size_wf]. rewrite Ht. cbn [andb]. apply N.leb_le. exact Hn. }
  assert (Hsw : size_wf (Ext (n + long_len t)) = true).
  { unfold hdr_wf in Hwf. apply andb_prop in Hwf. apply Hwf. }
  assert (Hlen := hdr_put_length {| htype := t; hsize := Ext (n + long_len t) |} Ht).
  assert (EL : encoded_len {| htype := t; hsize := Ext (n + long_len t) |} = long_len t) by (destruct t; reflexivity).
  assert (SF := size_field32_val {| htype := t; hsize := Ext (n + long_len t) |} Hsw).
  cbn [hsize] in SF.
  unfold ctor_post.
  split; [reflexivity|]. split; [exact Hwf|].
  split.
  { unfold box_data_size, box_size_of. cbn [hsize]. rewrite EL.
    replace (n + long_len t <? long_len t) with false by (symmetry; apply N.ltb_ge; lia).
    do 2 f_equal. lia. }
  split.
  { rewrite Hlen, EL. unfold box_size_of. cbn [hsize]. f_equal. lia. }
  split; [exact Hlen|].
  split.
  { unfold is_ext. cbn [hsize]. split; [intros _; exact Hlo | reflexivity]. }
  split.
  { unfold is_ext. cbn [hsize]. discriminate. }
  split.
  { intros _. split; [exact SF | apply size_field64_val; assumption]. }
  intros r. apply hdr_read_put. exact Hwf.
Qed.

Lemma with_u32_data_size_post t n : type_wf t = true -> n <= U32MAX ->
  ctor_post t n (with_u32_data_size t n).
Proof.
  intros Ht Hn. unfold with_u32_data_size.
  replace (encoded_len {| htype := t; hsize := Size 0 |}) with (short_len t) by (destruct t; reflexivity).
  replace (encoded_len {| htype := t; hsize := Ext 0 |}) with (long_len t) by (destruct t; reflexivity).
  destruct (n + short_len t <=? U32MAX) eqn:E.
  - apply N.leb_le in E. apply ctor_post_size; assumption.
  - apply N.leb_gt in E. apply ctor_post_ext; try assumption.
    rewrite long_len_val. unfold U32MAX, U64MAX in *. destruct t; lia.
Qed.

Lemma header_constructors : forall t n, type_wf t = true -> n <= U64MAX ->
  (forall h, with_data_size t n = Ok h -> ctor_post t n h) /\
  (with_data_size t n = EParse InvalidInput <-> U64MAX < n + long_len t) /\
  ((exists h, with_data_size t n = Ok h) \/ with_data_size t n = EParse InvalidInput) /\
  (n <= U32MAX -> with_data_size t n = Ok (with_u32_data_size t n)).
Proof.
  intros t n Ht Hn. unfold with_data_size.
  replace (encoded_len {| htype := t; hsize := Ext 0 |}) with (long_len t) by (destruct t; reflexivity).
  pose proof (long_len_val t) as LL. pose proof (short_len_val t) as SL.
  destruct (n <=? U32MAX) eqn:E32.
  - apply N.leb_le in E32.
    split. { intros h H. injection H as H. subst h. apply with_u32_data_size_post; assumption. }
    split. { split; [discriminate|]. intros H. exfalso. unfold U32MAX, U64MAX in *. destruct t; lia. }
    split. { left. eexists. reflexivity. }
    reflexivity.
  - apply N.leb_gt in E32.
    destruct (n + long_len t <=? U64MAX) eqn:E64.
    + apply N.leb_le in E64.
      split. { intros h H. injection H as H. subst h. apply ctor_post_ext; try assumption. lia. }
      split. { split; [discriminate|]. intros H. lia. }
      split. { left. eexists. reflexivity. }
      intros H. lia.
    + apply N.leb_gt in E64.
      split. { discriminate. }
      split. { split; [intros _; exact E64 | reflexivity]. }
      split. { right. reflexivity. }
      intros H. lia.
Qed.

Example header_constructors_sat :
  type_wf (Uuid (zeros 16)) = true /\
  with_data_size (Uuid (zeros 16)) 4294967272 = Ok {| htype := Uuid (zeros 16); hsize := Ext 4294967304 |} /\
  with_data_size (Uuid (zeros 16)) 4294967271 = Ok {| htype := Uuid (zeros 16); hsize := Size 4294967295 |} /\
  with_data_size (FourCC [x66;x72;x65;x65]) 18446744073709551600 = EParse InvalidInput /\
  with_data_size (FourCC [x66;x72;x65;x65]) 18446744073709551599 =
    Ok {| htype := FourCC [x66;x72;x65;x65]; hsize := Ext 18446744073709551615 |}.
Proof. vm_compute. repeat split; reflexivity. Qed.
