(* mp4san/src/parse/{mp4box,array,integers,ftyp,moov,trak,mdia,minf,stbl,stco,co64}.rs : the lazily parsed box tree.
   A node is either still raw bytes (BoxData::Bytes) or has been parsed (BoxData::Parsed): a container whose
   children are nodes again, or a chunk-offset table.  Serialisation never re-encodes a parsed header
   (calculated_header returns the parsed header because payload lengths never change here). *)
From Coq Require Import List NArith Bool Lia.
From Coq.Strings Require Import Byte.
From MS Require Import Base.Bytes Base.Outcome Mp4.Header.
Import ListNotations.
Open Scope N_scope.

Definition t_ftyp : bytes := [x66; x74; x79; x70].
Definition t_moov : bytes := [x6d; x6f; x6f; x76].
Definition t_mdat : bytes := [x6d; x64; x61; x74].
Definition t_free : bytes := [x66; x72; x65; x65].
Definition t_skip : bytes := [x73; x6b; x69; x70].
Definition t_meta : bytes := [x6d; x65; x74; x61].
Definition t_meco : bytes := [x6d; x65; x63; x6f].
Definition t_trak : bytes := [x74; x72; x61; x6b].
Definition t_mdia : bytes := [x6d; x64; x69; x61].
Definition t_minf : bytes := [x6d; x69; x6e; x66].
Definition t_stbl : bytes := [x73; x74; x62; x6c].
Definition t_stco : bytes := [x73; x74; x63; x6f].
Definition t_co64 : bytes := [x63; x6f; x36; x34].

Inductive node :=
  | Raw (h : header) (data : bytes)                       (* BoxData::Bytes *)
  | Cont (h : header) (kids : list node)                  (* parsed trak / mdia / minf / stbl: children: Boxes *)
  | Tab (h : header) (width : N) (count : N) (ents : bytes). (* parsed stco (width 4) / co64 (width 8) *)

Definition node_hdr (n : node) : header :=
  match n with Raw h _ => h | Cont h _ => h | Tab h _ _ _ => h end.
Definition node_is (t : bytes) (n : node) : bool := box_type_eqb (htype (node_hdr n)) (FourCC t).

(* Mp4Box::put_buf / ParsedBox::put_buf *)
Fixpoint put_node (n : node) : bytes :=
  match n with
  | Raw h d => hdr_put h ++ d
  | Cont h kids => hdr_put h ++ flat_map put_node kids
  | Tab h w c e => hdr_put h ++ [x00; x00; x00; x00] ++ n2be 4 c ++ e
  end.
Definition put_nodes (l : list node) : bytes := flat_map put_node l.

(* Boxes::parse : children until the buffer is empty.
   Mp4Box::parse = BoxHeader::parse (TruncatedBox) then BoxData::get_from_bytes_mut. *)
Fixpoint parse_boxes (fuel : nat) (buf : bytes) : res (list node) :=
  match buf with
  | [] => Ok []
  | _ =>
    match fuel with
    | O => OutOfFuel
    | S fuel' =>
      match hdr_read buf with
      | None => EParse TruncatedBox
      | Some (h, rest) =>
        ods <- box_data_size h ;;
        match ods with
        | None => Ok [Raw h rest]                       (* size 0: takes the rest of the parent *)
        | Some n =>
            if n <=? N.of_nat (length rest)
            then r <- parse_boxes fuel' (skipn (N.to_nat n) rest) ;; Ok (Raw h (firstn (N.to_nat n) rest) :: r)
            else EParse TruncatedBox
        end
      end
    end
  end.
Definition boxes_fuel (buf : bytes) : nat := S (Nat.div (length buf) 8).

(* BoxData::parse_as for the plain containers: derive(ParseBox) on `children: Boxes` *)
Definition force_cont (n : node) : res node :=
  match n with
  | Raw h d => kids <- parse_boxes (boxes_fuel d) d ;; Ok (Cont h kids)
  | _ => Ok n
  end.

(* StcoBox / Co64Box : ConstFullBoxHeader<0,0>, BoundedArray<u32, uW>; then "extra unparsed data" *)
Definition parse_table (w : N) (d : bytes) : res (N * bytes) :=
  (* FullBoxHeader::parse : u8 then [u8;3] *)
  if Nat.ltb (length d) 1 then EParse TruncatedBox else
  if Nat.ltb (length d) 4 then EParse TruncatedBox else
  if negb (be2n (firstn 1 d) =? 0) then EParse InvalidInput else      (* version *)
  if negb (be2n (firstn 3 (skipn 1 d)) =? 0) then EParse InvalidInput else  (* flags *)
  let d1 := skipn 4 d in
  if Nat.ltb (length d1) 4 then EParse TruncatedBox else
  let count := be2n (firstn 4 d1) in
  let d2 := skipn 4 d1 in
  if U32MAX <? w * count then EParse InvalidInput else                 (* checked_mul in u32 *)
  if (N.of_nat (length d2)) mod 4294967296 <? w * count then EParse TruncatedBox else  (* remaining as u32 *)
  if N.of_nat (length d2) <? w * count then Panic 10 else             (* split_to beyond the buffer *)
  if negb (Nat.eqb (length (skipn (N.to_nat (w * count)) d2)) 0) then EParse InvalidInput else
  Ok (count, firstn (N.to_nat (w * count)) d2).

Definition force_table (w : N) (n : node) : res node :=
  match n with
  | Raw h d => '(c, e) <- parse_table w d ;; Ok (Tab h w c e)
  | _ => Ok n
  end.

(* Boxes::get_one_mut::<T> followed by a function on the (lazily parsed) box; replaces the box by its new state *)
Definition count_type (t : bytes) (kids : list node) : nat := length (filter (node_is t) kids).

Fixpoint update_first {A} (t : bytes) (kids : list node) (f : node -> res (node * A)) : res (list node * A) :=
  match kids with
  | [] => EParse (MissingRequiredBox t)
  | k :: r =>
      if node_is t k then '(k', a) <- f k ;; Ok (k' :: r, a)
      else '(r', a) <- update_first t r f ;; Ok (k :: r', a)
  end.

Definition with_one {A} (t : bytes) (kids : list node) (f : node -> res (node * A)) : res (list node * A) :=
  if Nat.ltb 1 (count_type t kids) then EParse InvalidBoxLayout
  else update_first t kids f.

Definition kids_of (n : node) : list node := match n with Cont _ k => k | _ => [] end.
Definition set_kids (n : node) (k : list node) : node := match n with Cont h _ => Cont h k | _ => n end.

(* descend into a container child of type t: parse it lazily, run f on its children *)
Definition in_child {A} (t : bytes) (kids : list node) (f : list node -> res (list node * A)) : res (list node * A) :=
  with_one t kids (fun n => n' <- force_cont n ;; '(k', a) <- f (kids_of n') ;; Ok (set_kids n' k', a)).

(* StblBox::co_mut followed by g on the table node (after it has been parsed) *)
Definition stbl_co {A} (kids : list node) (g : node -> res (node * A)) : res (list node * A) :=
  let have_stco := existsb (node_is t_stco) kids in
  let have_co64 := existsb (node_is t_co64) kids in
  if have_stco && have_co64 then EParse InvalidBoxLayout
  else if have_stco then with_one t_stco kids (fun n => n' <- force_table 4 n ;; g n')
  else with_one t_co64 kids (fun n => n' <- force_table 8 n ;; g n').

(* TrakBox::co_mut : mdia > minf > stbl > co, applied to the children of a (parsed) trak *)
Definition trak_co {A} (trak_kids : list node) (g : node -> res (node * A)) : res (list node * A) :=
  in_child t_mdia trak_kids (fun mdia_kids =>
  in_child t_minf mdia_kids (fun minf_kids =>
  in_child t_stbl minf_kids (fun stbl_kids => stbl_co stbl_kids g))).

(* MoovBox::traks() mapped with a function on each trak's table, in order; stops at the first error *)
Fixpoint each_trak {A} (kids : list node) (g : node -> res (node * A)) : res (list node * list A) :=
  match kids with
  | [] => Ok ([], [])
  | k :: r =>
      if node_is t_trak k then
        k' <- force_cont k ;;
        '(tk, a) <- trak_co (kids_of k') g ;;
        '(r', l) <- each_trak r g ;;
        Ok (set_kids k' tk :: r', a :: l)
      else '(r', l) <- each_trak r g ;; Ok (k :: r', l)
  end.

Definition tab_count (n : node) : res (node * N) :=
  match n with Tab _ _ c _ => Ok (n, c) | _ => Panic 11 end.

(* MoovBox::parse (children + MoovChildrenValidator) *)
Definition parse_moov (payload : bytes) : res (list node) :=
  kids <- parse_boxes (boxes_fuel payload) payload ;;
  if existsb (node_is t_trak) kids then Ok kids else EParse (MissingRequiredBox t_trak).

(* the moov arm of the sanitizer: parse, then count chunks of every trak (u32 additions, overflow = panic) *)
Fixpoint sum_u32 (l : list N) (acc : option N) : res N :=
  match l with
  | [] => Ok (match acc with Some a => a | None => 0 end)
  | c :: r =>
      match acc with
      | None => sum_u32 r (Some c)
      | Some a => if U32MAX <? a + c then Panic 12 else sum_u32 r (Some (a + c))
      end
  end.

Definition moov_check (payload : bytes) : res (list node) :=
  kids <- parse_moov payload ;;
  '(kids', counts) <- each_trak kids tab_count ;;
  _ <- sum_u32 counts None ;;
  Ok kids'.

(* in-place rewrite of the entries of a table: entry.get() / checked_add_signed / entry.set() *)
Fixpoint map_entries (fuel : nat) (w : nat) (f : N -> res N) (e : bytes) : res bytes :=
  match fuel with
  | O => OutOfFuel
  | S fuel' =>
    if Nat.ltb (length e) w then Ok e   (* chunks_exact: a short tail (never present) is left alone *)
    else
      v <- f (be2n (firstn w e)) ;;
      r <- map_entries fuel' w f (skipn w e) ;;
      Ok (n2be w v ++ r)
  end.

Definition shift_table (f32 f64 : N -> res N) (n : node) : res (node * unit) :=
  match n with
  | Tab h w c e =>
      e' <- map_entries (S (length e)) (N.to_nat w) (if w =? 4 then f32 else f64) e ;;
      Ok (Tab h w c e', tt)
  | _ => Panic 13
  end.

(* FtypBox::parse + compatible_brands(): returns (major brand, brand list) *)
Fixpoint chunks4 (fuel : nat) (l : bytes) : list bytes :=
  match fuel with
  | O => []
  | S f => if Nat.ltb (length l) 4 then [] else firstn 4 l :: chunks4 f (skipn 4 l)
  end.
Definition parse_ftyp (payload : bytes) : res (bytes * list bytes) :=
  if Nat.ltb (length payload) 4 then EParse TruncatedBox else
  if Nat.ltb (length payload) 8 then EParse TruncatedBox else
  Ok (firstn 4 payload, chunks4 (length payload) (skipn 8 payload)).
