(* C14 (a), (b): what the two Config options of mp4san change.
   (a) max_metadata_size: raising the limit changes nothing, or turns an InvalidInput caused by a moov payload whose
       size lies between the two limits into whatever the larger limit gives;
   (b) cumulative_mdat_box_size: acts only through the size it assigns to an until-EOF mdat in the tiling. *)
From Coq Require Import List NArith ZArith Bool Lia Arith.
From Coq.Strings Require Import Byte.
From MS Require Import Base.Bytes Base.Outcome Base.Prog Gen.Consts Mp4.Header Mp4.Box Mp4.San Mp4.Spec
  Mp4.HeaderProofs Mp4.LoopProofs.
Import ListNotations.
Open Scope N_scope.
Arguments N.add : simpl never.
Arguments N.sub : simpl never.
Arguments N.mul : simpl never.
Arguments N.div : simpl never.
Arguments N.eqb : simpl never.
Arguments N.ltb : simpl never.
Arguments N.leb : simpl never.

(* a moov box header stands at p and its payload size (declared, or up to the end for size 0) is n *)
Definition moov_at (inp : input) (p n : N) : Prop :=
  exists sh, shdr_of (window inp p) = Some sh /\ sh_type sh = MOOV /\
    let size := match sh_size sh with Some s => s | None => ilen inp - p end in
    sh_len sh <= size /\ n = size - sh_len sh.

Section Limit.
Variable inp : input.
Variable lenient : bool.
Variable ms : N.
Variable cum : option N.
Variables m1 m2 : N.
Hypothesis Hm : m1 <= m2.
Let cfg1 := {| max_metadata_size := m1; cumulative_mdat_box_size := cum |}.
Let cfg2 := {| max_metadata_size := m2; cumulative_mdat_box_size := cum |}.

Definition limit_witness : Prop := exists p n, p < ilen inp /\ moov_at inp p n /\ m1 < n <= m2.

Lemma step_limit s p : p < ilen inp ->
  step_pure inp lenient ms cfg1 s p = step_pure inp lenient ms cfg2 s p \/
  (step_pure inp lenient ms cfg1 s p = EParse InvalidInput /\ limit_witness).
Proof.
  intros Hp. unfold step_pure.
  destruct (hdr_at inp p) as [[h q]| | | |] eqn:Eh; cbn [rbind fst snd]; try (left; reflexivity).
  destruct (is_type h t_free || is_type h t_skip); [left; reflexivity|].
  destruct (is_type h t_ftyp); [left; reflexivity|].
  destruct (st_ftyp s); [|left; reflexivity].
  destruct (is_type h t_mdat); [left; reflexivity|].
  destruct (is_type h t_moov) eqn:Et; [|left; reflexivity].
  unfold read_data_p. cbn [max_metadata_size cfg1 cfg2].
  destruct (data_size_p inp h q) as [n| | | |] eqn:Ed; cbn [rbind]; try (left; reflexivity).
  destruct (N.ltb_spec m1 n) as [H1|H1]; destruct (N.ltb_spec m2 n) as [H2|H2]; try (left; reflexivity); [|lia].
  right. split; [reflexivity|]. exists p, n. split; [exact Hp|]. split; [|lia].
  (* translate the model-side header facts into the specification's header *)
  unfold hdr_at in Eh. pose proof (shdr_of_hdr_read (window inp p)) as Esh.
  destruct (hdr_read (window inp p)) as [[h0 r]|] eqn:Er; [|discriminate]. injection Eh as <- <-.
  destruct (hdr_read_inv _ _ _ Er) as [Hwf Hl].
  exists (sh_of_hdr h0). split; [exact Esh|].
  assert (Hfit : p + encoded_len h0 <= ilen inp).
  { apply (f_equal (@length _)) in Hl. rewrite app_length, length_window in Hl.
    assert (Ht : type_wf (htype h0) = true) by (unfold hdr_wf in Hwf; apply andb_prop in Hwf; tauto).
    pose proof (hdr_put_length h0 Ht). lia. }
  split.
  - rewrite (is_type_sh h0 t_moov Hwf eq_refl) in Et. apply beq_eq in Et. exact Et.
  - cbn [sh_of_hdr sh_size sh_len]. unfold data_size_p, box_data_size in Ed.
    destruct (box_size_of h0) as [sz|].
    + destruct (N.ltb_spec sz (encoded_len h0)); [discriminate|]. cbn [rbind] in Ed. injection Ed as <-. split; [assumption | reflexivity].
    + cbn [rbind] in Ed. destruct (N.ltb_spec (ilen inp) (p + encoded_len h0)); [discriminate|]. injection Ed as <-.
      split; lia.
Qed.

Lemma loop_limit : forall lf s p,
  loop_pure inp lenient ms lf cfg1 s p = loop_pure inp lenient ms lf cfg2 s p \/
  (loop_pure inp lenient ms lf cfg1 s p = EParse InvalidInput /\ limit_witness).
Proof.
  induction lf as [|lf IH]; intros s p; [left; reflexivity|]. cbn [loop_pure].
  destruct (N.leb_spec (ilen inp) p) as [Hl|Hl]; [left; reflexivity|].
  destruct (step_limit s p Hl) as [E|[E W]].
  - rewrite E. destruct (step_pure inp lenient ms cfg2 s p) as [[s' q]| | | |]; cbn [rbind fst snd]; try (left; reflexivity).
    apply IH.
  - rewrite E. right. split; [reflexivity | exact W].
Qed.

Theorem limit_monotone fuel :
  mp4_sanitize cfg1 lenient ms inp fuel = mp4_sanitize cfg2 lenient ms inp fuel \/
  (mp4_sanitize cfg1 lenient ms inp fuel = EParse InvalidInput /\ limit_witness).
Proof.
  rewrite !sanitize_run. unfold san_pure.
  destruct (loop_limit fuel st0 0) as [E|[E W]]; rewrite E; [left; reflexivity | right; split; [reflexivity | exact W]].
Qed.

End Limit.

(* ------------------------------------------------------------------ cumulative_mdat_box_size *)
Lemma box_step_max cfg cfg' inp s b : max_metadata_size cfg = max_metadata_size cfg' ->
  box_step cfg inp s b = box_step cfg' inp s b.
Proof. intros H. unfold box_step. rewrite H. reflexivity. Qed.

Lemma fold_boxes_max cfg cfg' inp : max_metadata_size cfg = max_metadata_size cfg' ->
  forall bs s, fold_boxes cfg inp s bs = fold_boxes cfg' inp s bs.
Proof.
  intros H. induction bs as [|b r IH]; intros s; [reflexivity|]. cbn [fold_boxes].
  rewrite (box_step_max cfg cfg' inp s b H). apply rbind_ext. exact IH.
Qed.

(* an until-EOF mdat header stands at p *)
Definition eof_mdat_at (inp : input) (p : N) : Prop :=
  exists sh, shdr_of (window inp p) = Some sh /\ sh_type sh = MDAT /\ sh_size sh = None.

Section Cumulative.
Variable inp : input.
Variable lenient : bool.
Variable ms : N.
Variable mx : N.
Variables c1 c2 : option N.
Let cfg1 := {| max_metadata_size := mx; cumulative_mdat_box_size := c1 |}.
Let cfg2 := {| max_metadata_size := mx; cumulative_mdat_box_size := c2 |}.

(* no until-EOF mdat header anywhere: the option has no effect at all *)
Hypothesis Hno : forall p, p < ilen inp -> ~ eof_mdat_at inp p.

Lemma step_cum s p : p < ilen inp -> step_pure inp lenient ms cfg1 s p = step_pure inp lenient ms cfg2 s p.
Proof.
  intros Hp. unfold step_pure.
  destruct (hdr_at inp p) as [[h q]| | | |] eqn:Eh; cbn [rbind fst snd]; try reflexivity.
  destruct (is_type h t_free || is_type h t_skip); [reflexivity|].
  destruct (is_type h t_ftyp); [reflexivity|].
  destruct (st_ftyp s); [|reflexivity].
  destruct (is_type h t_mdat) eqn:Et; [|reflexivity].
  assert (E : mdat_hdr cfg1 h = mdat_hdr cfg2 h).
  { unfold mdat_hdr. cbn [cumulative_mdat_box_size cfg1 cfg2].
    destruct (box_data_size h) as [[n|]| | | |] eqn:Ed; try (destruct c1, c2; reflexivity).
    exfalso. apply (Hno p Hp).
    unfold hdr_at in Eh. pose proof (shdr_of_hdr_read (window inp p)) as Esh.
    destruct (hdr_read (window inp p)) as [[h0 r]|] eqn:Er; [|discriminate]. injection Eh as <- <-.
    destruct (hdr_read_inv _ _ _ Er) as [Hwf Hl].
    exists (sh_of_hdr h0). split; [exact Esh|]. split.
    - rewrite (is_type_sh h0 t_mdat Hwf eq_refl) in Et. apply beq_eq in Et. exact Et.
    - cbn [sh_of_hdr sh_size]. unfold box_data_size in Ed. destruct (box_size_of h0) as [sz|]; [|reflexivity].
      destruct (sz <? encoded_len h0); discriminate. }
  rewrite E. reflexivity.
Qed.

Lemma loop_cum : forall lf s p, loop_pure inp lenient ms lf cfg1 s p = loop_pure inp lenient ms lf cfg2 s p.
Proof.
  induction lf as [|lf IH]; intros s p; [reflexivity|]. cbn [loop_pure].
  destruct (N.leb_spec (ilen inp) p) as [Hl|Hl]; [reflexivity|].
  rewrite (step_cum s p Hl). apply rbind_ext. intros [s' q]. apply IH.
Qed.

Theorem cumulative_no_effect fuel : mp4_sanitize cfg1 lenient ms inp fuel = mp4_sanitize cfg2 lenient ms inp fuel.
Proof. rewrite !sanitize_run. unfold san_pure. rewrite loop_cum. reflexivity. Qed.

End Cumulative.

(* the option acts only through the tiling: two settings under which the input has the same tiling give the same
   result; by definition of Spec.tile, Some t reads an until-EOF mdat as a box of declared size t *)
Section CumulativeTiled.
Variable inp : input.
Variable lenient : bool.
Variable ms : N.
Variable cfg cfg' : config.
Hypothesis Hms : ilen inp <= ms.
Hypothesis Hms64 : ms <= U64MAX.
Hypothesis Hcum : forall t, cumulative_mdat_box_size cfg = Some t -> t <= U32MAX.
Hypothesis Hcum' : forall t, cumulative_mdat_box_size cfg' = Some t -> t <= U32MAX.
Hypothesis Hmax : max_metadata_size cfg = max_metadata_size cfg'.

Theorem cumulative_same_tiling bs fuel fuel' :
  tiling (cumulative_mdat_box_size cfg) inp = Some bs ->
  tiling (cumulative_mdat_box_size cfg') inp = Some bs ->
  mp4_sanitize cfg lenient ms inp fuel <> OutOfFuel ->
  mp4_sanitize cfg' lenient ms inp fuel' <> OutOfFuel ->
  mp4_sanitize cfg lenient ms inp fuel = mp4_sanitize cfg' lenient ms inp fuel'.
Proof.
  intros T T' F F'.
  destruct (sanitize_tiled inp lenient ms cfg Hms Hms64 Hcum fuel bs T) as [E|[E _]]; [|contradiction].
  destruct (sanitize_tiled inp lenient ms cfg' Hms Hms64 Hcum' fuel' bs T') as [E'|[E' _]]; [|contradiction].
  rewrite E, E'. rewrite (fold_boxes_max cfg cfg' inp Hmax). reflexivity.
Qed.

End CumulativeTiled.

(* how the two tilings differ: only in the size given to an until-EOF mdat *)
Lemma resolve_cum t inp off h :
  resolve (Some t) inp off h =
  match sh_size h with
  | None => if beq (sh_type h) MDAT then t else resolve None inp off h
  | Some _ => resolve None inp off h
  end.
Proof. unfold resolve. destruct (sh_size h); reflexivity. Qed.

Lemma cumulative_is_declared_size :
  forall (inp : input) (lenient : bool) (mx : N) (c1 c2 : option N),
  ilen inp <= U64MAX ->
  (forall t, c1 = Some t -> t <= U32MAX) -> (forall t, c2 = Some t -> t <= U32MAX) ->
  let san c fuel := mp4_sanitize {| max_metadata_size := mx; cumulative_mdat_box_size := c |} lenient U64MAX' inp fuel in
  ((forall p, p < ilen inp ->
      ~ exists sh, shdr_of (window inp p) = Some sh /\ sh_type sh = MDAT /\ sh_size sh = None) ->
   forall fuel, san c1 fuel = san c2 fuel) /\
  (forall bs fuel fuel', tiling c1 inp = Some bs -> tiling c2 inp = Some bs ->
     san c1 fuel <> OutOfFuel -> san c2 fuel' <> OutOfFuel -> san c1 fuel = san c2 fuel') /\
  (forall fuel, tiling c1 inp = None -> is_ok (san c1 fuel) = false).
Proof.
  intros inp lenient mx c1 c2 Hl H1 H2 san. subst san.
  assert (Hms : ilen inp <= U64MAX') by exact Hl.
  assert (Hms64 : U64MAX' <= U64MAX) by (unfold U64MAX', U64MAX; lia).
  split; [|split].
  - intros Hno fuel. apply cumulative_no_effect. exact Hno.
  - intros bs fuel fuel' T1 T2 F1 F2.
    apply (cumulative_same_tiling inp lenient U64MAX'
             {| max_metadata_size := mx; cumulative_mdat_box_size := c1 |}
             {| max_metadata_size := mx; cumulative_mdat_box_size := c2 |} Hms Hms64 H1 H2 eq_refl bs fuel fuel' T1 T2 F1 F2).
  - intros fuel T.
    apply (sanitize_untiled inp lenient U64MAX' {| max_metadata_size := mx; cumulative_mdat_box_size := c1 |} Hms Hms64 H1 fuel T).
Qed.

(* ------------------------------------------------------------------ (b) across two inputs
   "san{cum := Some t} x = san{cum := None} (x with the until-EOF mdat header decoded as Size t)": ANY input x' of which
   the specification's plain tiling is the tiling of x under Some t, and whose ftyp / moov payloads are those of x,
   gives under None the result x gives under Some t.  (Writing t >= 2 into the 32-bit size field of the header is one
   such x'; that byte-level instance is exercised by the pairwise oracle of lib/props/c14.py.) *)
Lemma box_step_inputs cfg inp inp' s b :
  (is FTYP b || is MOOV b = true -> tb_payload inp b = tb_payload inp' b) ->
  box_step cfg inp s b = box_step cfg inp' s b.
Proof.
  intros H. unfold box_step. destruct (is FREE b || is SKIP b); [reflexivity|].
  destruct (is FTYP b) eqn:Ef. { rewrite (H eq_refl). reflexivity. }
  destruct (st_ftyp s); [|reflexivity]. destruct (is MDAT b); [reflexivity|].
  destruct (is MOOV b) eqn:Em; [|reflexivity]. rewrite (H eq_refl). reflexivity.
Qed.

Lemma fold_boxes_inputs cfg inp inp' : forall bs s,
  (forall b, In b bs -> is FTYP b || is MOOV b = true -> tb_payload inp b = tb_payload inp' b) ->
  fold_boxes cfg inp s bs = fold_boxes cfg inp' s bs.
Proof.
  induction bs as [|b r IH]; intros s H; [reflexivity|]. cbn [fold_boxes].
  rewrite (box_step_inputs cfg inp inp' s b (H b (or_introl eq_refl))). apply rbind_ext. intros s'.
  apply IH. intros x Hx. apply H. right. exact Hx.
Qed.

Theorem cumulative_declared_size_inputs :
  forall (inp inp' : input) (lenient : bool) (mx t : N) (bs : list tbox) (fuel fuel' : nat),
  ilen inp <= U64MAX -> ilen inp' <= U64MAX -> t <= U32MAX ->
  tiling (Some t) inp = Some bs -> tiling None inp' = Some bs ->
  (forall b, In b bs -> is FTYP b || is MOOV b = true -> tb_payload inp b = tb_payload inp' b) ->
  let r := mp4_sanitize {| max_metadata_size := mx; cumulative_mdat_box_size := Some t |} lenient U64MAX' inp fuel in
  let r' := mp4_sanitize {| max_metadata_size := mx; cumulative_mdat_box_size := None |} lenient U64MAX' inp' fuel' in
  r <> OutOfFuel -> r' <> OutOfFuel -> r = r'.
Proof.
  intros inp inp' lenient mx t bs fuel fuel' Hl Hl' Ht T T' Hp r r' F F'. subst r r'.
  assert (Hms64 : U64MAX' <= U64MAX) by (unfold U64MAX', U64MAX; lia).
  set (cfg := {| max_metadata_size := mx; cumulative_mdat_box_size := Some t |}) in *.
  set (cfg' := {| max_metadata_size := mx; cumulative_mdat_box_size := None |}) in *.
  assert (Hc : forall u, cumulative_mdat_box_size cfg = Some u -> u <= U32MAX) by (cbn; intros u E; injection E as <-; exact Ht).
  assert (Hc' : forall u, cumulative_mdat_box_size cfg' = Some u -> u <= U32MAX) by (cbn; discriminate).
  destruct (sanitize_tiled inp lenient U64MAX' cfg Hl Hms64 Hc fuel bs T) as [E|[E _]]; [|contradiction].
  destruct (sanitize_tiled inp' lenient U64MAX' cfg' Hl' Hms64 Hc' fuel' bs T') as [E'|[E' _]]; [|contradiction].
  rewrite E, E'. rewrite (fold_boxes_max cfg cfg' inp eq_refl). rewrite (fold_boxes_inputs cfg' inp inp' bs st0 Hp). reflexivity.
Qed.
