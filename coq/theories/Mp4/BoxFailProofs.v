(* Proofs about Mp4/BoxFail.v (the lazily parsed box tree after a failed accessor call - finding D9 inside the model):
   1. agreement: every state-passing function returns the outcome of its counterpart in Mp4/Box.v / BoxOps.v, and when that
      outcome is Ok it returns the same tree - so everything proved about successful histories (C16_lazy_roundtrip, ...) is a
      statement about this model too, and the two models differ exactly in having a state after a failure;
   2. what a failed parse leaves is a SUFFIX of the child's payload (the failing parser consumed a prefix, nothing else changes);
   3. well-formedness of the box types is kept by every call, failed or not, so that the first clause of C16 ("serialising
      writes exactly encoded_len bytes") holds in EVERY history, those of finding D9 included (with BoxEditProofs.puts_calc_len). *)
From Coq Require Import List NArith Bool Lia Arith.
From Coq.Strings Require Import Byte.
From MS Require Import Base.Bytes Base.Outcome Mp4.Header Mp4.HeaderProofs Mp4.Box Mp4.BoxLazy Mp4.BoxOps Mp4.BoxEdit Mp4.BoxFail
  Mp4.BoxProofsLazy Mp4.BoxEditProofs.
Import ListNotations.
Open Scope N_scope.

(* ------------------------------------------------------------------ 1. agreement *)
Definition agree {S} (r : res (S * unit)) (p : S * res unit) : Prop :=
  snd p = unit_of r /\ forall s u, r = Ok (s, u) -> fst p = s.
Definition agree1 {S} (r : res S) (p : S * res unit) : Prop :=
  snd p = unit_of r /\ forall s, r = Ok s -> fst p = s.

Lemma force_cont_agree n : agree1 (force_cont n) (force_cont_st n).
Proof.
  destruct n as [h d|h ks|h w c e]; cbn [force_cont force_cont_st]; try (split; [reflexivity | intros s E; injection E as <-; reflexivity]).
  destruct (parse_boxes (boxes_fuel d) d) as [ks| | | |]; cbn [rbind]; split; try reflexivity; try (intros s E; discriminate).
  intros s E. injection E as <-. reflexivity.
Qed.

Lemma force_table_agree w n : agree1 (force_table w n) (force_table_st w n).
Proof.
  destruct n as [h d|h ks|h w0 c e]; cbn [force_table force_table_st]; try (split; [reflexivity | intros s E; injection E as <-; reflexivity]).
  destruct (parse_table w d) as [[c e]| | | |]; cbn [rbind]; split; try reflexivity; try (intros s E; discriminate).
  intros s E. injection E as <-. reflexivity.
Qed.

Lemma update_first_agree t (f : node -> res (node * unit)) fs : (forall k, agree (f k) (fs k)) ->
  forall kids, agree (update_first t kids f) (update_first_st t kids fs).
Proof.
  intros Hf. induction kids as [|k r IH]; cbn [update_first update_first_st].
  - split; [reflexivity | intros s u E; discriminate].
  - destruct (node_is t k).
    + destruct (Hf k) as [H1 H2]. destruct (fs k) as [k' o]. cbn [snd fst] in *.
      destruct (f k) as [[k2 u2]| | | |]; cbn [rbind]; split; cbn [snd fst]; try exact H1; try (intros s u E; discriminate).
      intros s u E. injection E as <- <-. rewrite (H2 k2 u2 eq_refl). reflexivity.
    + destruct IH as [H1 H2]. destruct (update_first_st t r fs) as [r' o]. cbn [snd fst] in *.
      destruct (update_first t r f) as [[r2 u2]| | | |]; cbn [rbind]; split; cbn [snd fst]; try exact H1; try (intros s u E; discriminate).
      intros s u E. injection E as <- <-. rewrite (H2 r2 u2 eq_refl). reflexivity.
Qed.

Lemma with_one_agree t (f : node -> res (node * unit)) fs : (forall k, agree (f k) (fs k)) ->
  forall kids, agree (with_one t kids f) (with_one_st t kids fs).
Proof.
  intros Hf kids. unfold with_one, with_one_st. destruct (Nat.ltb 1 (count_type t kids)).
  - split; [reflexivity | intros s u E; discriminate].
  - apply update_first_agree. exact Hf.
Qed.

Lemma in_child_agree t (f : list node -> res (list node * unit)) fs : (forall ks, agree (f ks) (fs ks)) ->
  forall kids, agree (in_child t kids f) (in_child_st t kids fs).
Proof.
  intros Hf kids. unfold in_child, in_child_st. apply with_one_agree. intros k.
  destruct (force_cont_agree k) as [H1 H2]. destruct (force_cont_st k) as [n' o]. cbn [snd fst] in *.
  destruct (force_cont k) as [n2| | | |]; cbn [rbind unit_of rmap] in *; subst o;
    try (split; [reflexivity | intros s u E; discriminate]).
  rewrite (H2 n2 eq_refl). destruct (Hf (kids_of n2)) as [G1 G2]. destruct (fs (kids_of n2)) as [k' o']. cbn [snd fst] in *.
  destruct (f (kids_of n2)) as [[k2 u2]| | | |]; cbn [rbind]; split; cbn [snd fst]; try exact G1; try (intros s u E; discriminate).
  intros s u E. injection E as <- <-. rewrite (G2 k2 u2 eq_refl). reflexivity.
Qed.

Lemma table_count_agree w k : agree (n' <- force_table w k ;; count_unit n') (table_count_st w k).
Proof.
  unfold table_count_st. destruct (force_table_agree w k) as [H1 H2]. destruct (force_table_st w k) as [n' o]. cbn [snd fst] in *.
  destruct (force_table w k) as [n2| | | |]; cbn [rbind unit_of rmap] in *; subst o;
    try (split; [reflexivity | intros s u E; discriminate]).
  rewrite (H2 n2 eq_refl). unfold count_unit.
  destruct n2 as [h d|h ks|h w0 c e]; cbn [tab_count rbind unit_of rmap]; split; cbn [snd fst]; try reflexivity;
    try (intros s u E; discriminate).
  intros s u E. injection E as <- <-. reflexivity.
Qed.

Lemma stbl_co_agree kids : agree (stbl_co kids count_unit) (stbl_co_st kids).
Proof.
  unfold stbl_co, stbl_co_st.
  destruct (existsb (node_is t_stco) kids && existsb (node_is t_co64) kids).
  - split; [reflexivity | intros s u E; discriminate].
  - destruct (existsb (node_is t_stco) kids); apply with_one_agree; intros k; apply table_count_agree.
Qed.

Lemma keep_agree ks : agree (keep ks) (keep_st ks).
Proof. split; [reflexivity | intros s u E; injection E as <- <-; reflexivity]. Qed.

Lemma chain_prefix_agree k ks : agree (chain_prefix k ks) (chain_prefix_st k ks).
Proof.
  destruct k as [|[|[|[|k]]]]; cbn [chain_prefix chain_prefix_st].
  - apply keep_agree.
  - apply in_child_agree. intros. apply keep_agree.
  - apply in_child_agree. intros. apply in_child_agree. intros. apply keep_agree.
  - apply in_child_agree. intros. apply in_child_agree. intros. apply in_child_agree. intros. apply keep_agree.
  - unfold trak_co. apply in_child_agree. intros. apply in_child_agree. intros. apply in_child_agree. intros. apply stbl_co_agree.
Qed.

Lemma nth_trak_agree (f : list node -> res (list node * unit)) fs : (forall ks, agree (f ks) (fs ks)) ->
  forall kids i, agree1 (nth_trak i kids f) (nth_trak_st i kids fs).
Proof.
  intros Hf. induction kids as [|k r IH]; intros i; cbn [nth_trak nth_trak_st].
  - split; [reflexivity | intros s E; injection E as <-; reflexivity].
  - destruct (node_is t_trak k).
    + destruct (force_cont_agree k) as [H1 H2]. destruct (force_cont_st k) as [k' o]. cbn [snd fst] in *.
      destruct (force_cont k) as [n2| | | |]; cbn [rbind unit_of rmap] in *; subst o;
        try (split; [reflexivity | intros s E; discriminate]).
      rewrite (H2 n2 eq_refl). destruct i as [|i'].
      * destruct (Hf (kids_of n2)) as [G1 G2]. destruct (fs (kids_of n2)) as [tk o']. cbn [snd fst] in *.
        destruct (f (kids_of n2)) as [[k2 u2]| | | |]; cbn [rbind]; split; cbn [snd fst]; try exact G1; try (intros s E; discriminate).
        intros s E. injection E as <-. rewrite (G2 k2 u2 eq_refl). reflexivity.
      * destruct (IH i') as [G1 G2]. destruct (nth_trak_st i' r fs) as [r' o']. cbn [snd fst] in *.
        destruct (nth_trak i' r f) as [r2| | | |]; cbn [rbind]; split; cbn [snd fst]; try exact G1; try (intros s E; discriminate).
        intros s E. injection E as <-. rewrite (G2 r2 eq_refl). reflexivity.
    + destruct (IH i) as [G1 G2]. destruct (nth_trak_st i r fs) as [r' o']. cbn [snd fst] in *.
      destruct (nth_trak i r f) as [r2| | | |]; cbn [rbind]; split; cbn [snd fst]; try exact G1; try (intros s E; discriminate).
      intros s E. injection E as <-. rewrite (G2 r2 eq_refl). reflexivity.
Qed.

Definition fail_unit (f : option (nat * res (list node))) : option (nat * res unit) :=
  match f with Some (i, e) => Some (i, unit_of e) | None => None end.

(* the two models report the same failure (same call, same error), and when no call fails they hold the same tree *)
Theorem run_ops_st_agrees : forall ops step kids,
  snd (run_ops_st ops step kids) = fail_unit (snd (run_ops ops step kids)) /\
  (snd (run_ops ops step kids) = None -> fst (run_ops_st ops step kids) = fst (run_ops ops step kids)).
Proof.
  induction ops as [|[i k] rest IH]; intros step kids; cbn [run_ops run_ops_st].
  - split; reflexivity.
  - destruct (nth_trak_agree (chain_prefix k) (chain_prefix_st k) (chain_prefix_agree k) kids i) as [H1 H2].
    destruct (nth_trak_st i kids (chain_prefix_st k)) as [kids' o]. cbn [snd fst] in *.
    destruct (nth_trak i kids (chain_prefix k)) as [k2| | | |]; cbn [unit_of rmap rbind] in *; subst o;
      try (split; [reflexivity | intros E; discriminate]).
    rewrite (H2 k2 eq_refl). apply IH.
Qed.

(* ------------------------------------------------------------------ 2. what a failed parse leaves is a suffix *)
Lemma skipn_suffix {A} n (l : list A) : exists pre, l = pre ++ skipn n l.
Proof. exists (firstn n l). symmetry. apply firstn_skipn. Qed.

Lemma boxes_resid_suffix fuel : forall buf, exists pre, buf = pre ++ boxes_resid fuel buf.
Proof.
  induction fuel as [|fuel IH]; intros buf.
  - destruct buf; cbn [boxes_resid]; [exists []; reflexivity | exists []; reflexivity].
  - destruct buf as [|b0 buf0]; [exists []; reflexivity|]. cbn [boxes_resid].
    destruct (hdr_read (b0 :: buf0)) as [[h rest]|] eqn:Eh; [|exists (b0 :: buf0); rewrite app_nil_r; reflexivity].
    apply hdr_read_inv in Eh. destruct Eh as [_ Eb]. rewrite Eb.
    destruct (box_data_size h) as [[n|]| | | |]; try (exists (hdr_put h); reflexivity).
    + destruct (n <=? N.of_nat (length rest)); [|exists (hdr_put h); reflexivity].
      destruct (IH (skipn (N.to_nat n) rest)) as [pre Hp].
      exists (hdr_put h ++ firstn (N.to_nat n) rest ++ pre).
      rewrite <- !app_assoc. f_equal. rewrite <- Hp. symmetry. apply firstn_skipn.
    + exists (hdr_put h ++ rest). rewrite app_nil_r. reflexivity.
Qed.

Lemma table_resid_suffix w d : exists pre, d = pre ++ table_resid w d.
Proof.
  unfold table_resid.
  destruct (Nat.ltb (length d) 1); [exists []; reflexivity|].
  destruct (Nat.ltb (length d) 4); [apply skipn_suffix|].
  destruct (negb (be2n (firstn 1 d) =? 0)); [apply skipn_suffix|].
  destruct (negb (be2n (firstn 3 (skipn 1 d)) =? 0)); [apply skipn_suffix|].
  destruct (Nat.ltb (length (skipn 4 d)) 4); [apply skipn_suffix|].
  assert (S2 : exists pre, d = pre ++ skipn 4 (skipn 4 d)).
  { destruct (skipn_suffix 4 d) as [p1 H1]. destruct (skipn_suffix 4 (skipn 4 d)) as [p2 H2].
    exists (p1 ++ p2). rewrite <- app_assoc, <- H2. exact H1. }
  destruct (U32MAX <? w * be2n (firstn 4 (skipn 4 d))); [exact S2|].
  destruct (N.of_nat (length (skipn 4 (skipn 4 d))) mod 4294967296 <? w * be2n (firstn 4 (skipn 4 d))); [exact S2|].
  destruct S2 as [p1 H1]. destruct (skipn_suffix (N.to_nat (w * be2n (firstn 4 (skipn 4 d)))) (skipn 4 (skipn 4 d))) as [p2 H2].
  exists (p1 ++ p2). rewrite <- app_assoc, <- H2. exact H1.
Qed.

(* the node a failed forcing leaves: the same header over a suffix of the payload; a successful one is the forcing of Box.v *)
Theorem force_cont_st_shape n : let '(n', o) := force_cont_st n in
  match o with
  | Ok _ => force_cont n = Ok n'
  | _ => exists h d pre, n = Raw h d /\ d = pre ++ boxes_resid (boxes_fuel d) d /\ n' = Raw h (boxes_resid (boxes_fuel d) d)
  end.
Proof.
  destruct n as [h d|h ks|h w c e]; cbn [force_cont_st force_cont]; try reflexivity.
  destruct (parse_boxes (boxes_fuel d) d) as [ks| | | |]; cbn [unit_of rmap rbind]; try reflexivity;
    destruct (boxes_resid_suffix (boxes_fuel d) d) as [pre Hp]; exists h, d, pre; auto.
Qed.

Theorem force_table_st_shape w n : let '(n', o) := force_table_st w n in
  match o with
  | Ok _ => force_table w n = Ok n'
  | _ => exists h d pre, n = Raw h d /\ d = pre ++ table_resid w d /\ n' = Raw h (table_resid w d)
  end.
Proof.
  destruct n as [h d|h ks|h w0 c e]; cbn [force_table_st force_table]; try reflexivity.
  destruct (parse_table w d) as [[c e]| | | |]; cbn [unit_of rmap rbind]; try reflexivity;
    destruct (table_resid_suffix w d) as [pre Hp]; exists h, d, pre; auto.
Qed.

(* ------------------------------------------------------------------ 3. well-formed types are kept by every call *)
Lemma force_cont_st_wf n : node_wf n = true -> node_wf (fst (force_cont_st n)) = true.
Proof.
  destruct n as [h d|h ks|h w c e]; cbn [force_cont_st fst]; try (intros H; exact H).
  intros H. destruct (parse_boxes (boxes_fuel d) d) as [ks| | | |] eqn:Ep; cbn [fst]; try exact H.
  cbn [node_wf node_hdr] in *. apply andb_prop in H. destruct H as [Ht _]. rewrite Ht, (parse_boxes_wf _ _ _ Ep). reflexivity.
Qed.

Lemma force_table_st_wf w n : node_wf n = true -> node_wf (fst (force_table_st w n)) = true.
Proof.
  destruct n as [h d|h ks|h w0 c e]; cbn [force_table_st fst]; try (intros H; exact H).
  intros H. destruct (parse_table w d) as [[c e]| | | |]; cbn [fst]; exact H.
Qed.

Lemma kids_of_wf n : node_wf n = true -> forallb node_wf (kids_of n) = true.
Proof. destruct n as [h d|h ks|h w c e]; cbn [kids_of node_wf]; try reflexivity. intros H. apply andb_prop in H. apply H. Qed.

Lemma set_kids_wf n ks : node_wf n = true -> forallb node_wf ks = true -> node_wf (set_kids n ks) = true.
Proof.
  destruct n as [h d|h ks0|h w c e]; cbn [set_kids]; try (intros H _; exact H).
  cbn [node_wf node_hdr]. intros H Hk. apply andb_prop in H. destruct H as [Ht _]. rewrite Ht, Hk. reflexivity.
Qed.

Lemma update_first_st_wf t fs : (forall k, node_wf k = true -> node_wf (fst (fs k)) = true) ->
  forall kids, forallb node_wf kids = true -> forallb node_wf (fst (update_first_st t kids fs)) = true.
Proof.
  intros Hf. induction kids as [|k r IH]; cbn [update_first_st fst forallb]; [reflexivity|].
  intros H. apply andb_prop in H. destruct H as [Hk Hr]. destruct (node_is t k).
  - specialize (Hf k Hk). destruct (fs k) as [k' o]. cbn [fst forallb] in *. rewrite Hf, Hr. reflexivity.
  - specialize (IH Hr). destruct (update_first_st t r fs) as [r' o]. cbn [fst forallb] in *. rewrite Hk, IH. reflexivity.
Qed.

Lemma with_one_st_wf t fs : (forall k, node_wf k = true -> node_wf (fst (fs k)) = true) ->
  forall kids, forallb node_wf kids = true -> forallb node_wf (fst (with_one_st t kids fs)) = true.
Proof.
  intros Hf kids H. unfold with_one_st. destruct (Nat.ltb 1 (count_type t kids)); [exact H|].
  apply update_first_st_wf; assumption.
Qed.

Lemma in_child_st_wf t fs : (forall ks, forallb node_wf ks = true -> forallb node_wf (fst (fs ks)) = true) ->
  forall kids, forallb node_wf kids = true -> forallb node_wf (fst (in_child_st t kids fs)) = true.
Proof.
  intros Hf kids H. unfold in_child_st. apply with_one_st_wf; [|exact H]. intros k Hk.
  pose proof (force_cont_st_wf k Hk) as Hn. destruct (force_cont_st k) as [n' o]. cbn [fst] in Hn.
  destruct o; cbn [fst]; try exact Hn.
  specialize (Hf (kids_of n') (kids_of_wf n' Hn)). destruct (fs (kids_of n')) as [k' o']. cbn [fst] in *.
  apply set_kids_wf; assumption.
Qed.

Lemma table_count_st_wf w k : node_wf k = true -> node_wf (fst (table_count_st w k)) = true.
Proof.
  intros Hk. unfold table_count_st. pose proof (force_table_st_wf w k Hk) as Hn.
  destruct (force_table_st w k) as [n' o]. cbn [fst] in Hn. destruct o; cbn [fst]; exact Hn.
Qed.

Lemma stbl_co_st_wf kids : forallb node_wf kids = true -> forallb node_wf (fst (stbl_co_st kids)) = true.
Proof.
  intros H. unfold stbl_co_st.
  destruct (existsb (node_is t_stco) kids && existsb (node_is t_co64) kids); [exact H|].
  destruct (existsb (node_is t_stco) kids); (apply with_one_st_wf; [intros k Hk; apply table_count_st_wf; exact Hk | exact H]).
Qed.

Lemma chain_prefix_st_wf k ks : forallb node_wf ks = true -> forallb node_wf (fst (chain_prefix_st k ks)) = true.
Proof.
  intros H. destruct k as [|[|[|[|k]]]]; cbn [chain_prefix_st].
  - exact H.
  - apply in_child_st_wf; [intros ? X; exact X | exact H].
  - apply in_child_st_wf; [|exact H]. intros ? X. apply in_child_st_wf; [intros ? Y; exact Y | exact X].
  - apply in_child_st_wf; [|exact H]. intros ? X. apply in_child_st_wf; [|exact X]. intros ? Y.
    apply in_child_st_wf; [intros ? Z; exact Z | exact Y].
  - apply in_child_st_wf; [|exact H]. intros ? X. apply in_child_st_wf; [|exact X]. intros ? Y.
    apply in_child_st_wf; [|exact Y]. intros ? Z. apply stbl_co_st_wf. exact Z.
Qed.

Lemma nth_trak_st_wf fs : (forall ks, forallb node_wf ks = true -> forallb node_wf (fst (fs ks)) = true) ->
  forall kids i, forallb node_wf kids = true -> forallb node_wf (fst (nth_trak_st i kids fs)) = true.
Proof.
  intros Hf. induction kids as [|k r IH]; intros i; cbn [nth_trak_st fst forallb]; [reflexivity|].
  intros H. apply andb_prop in H. destruct H as [Hk Hr]. destruct (node_is t_trak k).
  - pose proof (force_cont_st_wf k Hk) as Hn. destruct (force_cont_st k) as [k' o]. cbn [fst] in Hn.
    destruct o; cbn [fst forallb]; try (rewrite Hn, Hr; reflexivity).
    destruct i as [|i'].
    + specialize (Hf (kids_of k') (kids_of_wf k' Hn)). destruct (fs (kids_of k')) as [tk o']. cbn [fst forallb] in *.
      rewrite (set_kids_wf k' tk Hn Hf), Hr. reflexivity.
    + specialize (IH i' Hr). destruct (nth_trak_st i' r fs) as [r' o']. cbn [fst forallb] in *. rewrite Hn, IH. reflexivity.
  - specialize (IH i Hr). destruct (nth_trak_st i r fs) as [r' o']. cbn [fst forallb] in *. rewrite Hk, IH. reflexivity.
Qed.

Lemma run_ops_st_wf : forall ops step kids, forallb node_wf kids = true -> forallb node_wf (fst (run_ops_st ops step kids)) = true.
Proof.
  induction ops as [|[i k] rest IH]; intros step kids H; cbn [run_ops_st]; [exact H|].
  pose proof (nth_trak_st_wf (chain_prefix_st k) (chain_prefix_st_wf k) kids i H) as Hn.
  destruct (nth_trak_st i kids (chain_prefix_st k)) as [kids' o]. cbn [fst] in Hn.
  destruct o; cbn [fst]; try exact Hn. apply IH. exact Hn.
Qed.

(* C16's first clause in EVERY history of accessor calls on a parsed moov, the failing ones (finding D9) included: whatever the
   calls left behind, what put_buf writes has exactly encoded_len bytes *)
Theorem len_agrees_in_every_history : forall (p : bytes) (kids : list node) (ops : list (nat * nat)) (b : bytes),
  parse_moov p = Ok kids ->
  puts_calc (fst (run_ops_st ops 0 kids)) = Ok b -> lens_calc (fst (run_ops_st ops 0 kids)) = Ok (N.of_nat (length b)).
Proof.
  intros p kids ops b Hp Hb. apply puts_calc_len; [|exact Hb]. apply run_ops_st_wf.
  unfold parse_moov in Hp. destruct (parse_boxes (boxes_fuel p) p) as [ks| | | |] eqn:Ep; cbn [rbind] in Hp; try discriminate.
  destruct (existsb (node_is t_trak) ks); [|discriminate]. injection Hp as <-. exact (parse_boxes_wf _ _ _ Ep).
Qed.
