(* The top-level dispatch of the MP4 sanitizer, tied to the source by regeneration.
   Gen/Mp4Dispatch.v (written by tools/gen_consts.py on every run) lists the arms of `match header.box_type() { .. }` of
   mp4san/src/lib.rs in source order: the box names each arm takes, the `_ if ftyp.is_none()` guard arm, the catch-all.
   Here: [arm_index] = the first arm of THAT list a header falls into (Rust's first-match semantics); [arm_body] = the bodies of the
   seven arms as Mp4/San.v models them; [step_arms] = read the header, pick the arm by the regenerated list, run its body.
   Mp4/SanDispatchProofs.v proves that [step] of Mp4/San.v (the function every MP4 theorem is about) IS [step_arms] over every
   reader - so an edit of the match (a name moved to another arm, an arm added, removed or reordered, the guard moved) changes the
   regenerated list and breaks that proof.  Definitions only. *)
From Coq Require Import List NArith ZArith Bool.
From Coq.Strings Require Import Byte.
From MS Require Import Base.Bytes Base.Outcome Base.Prog Mp4.Header Mp4.Box Mp4.San Gen.Consts Gen.Mp4Dispatch.
Import ListNotations.
Open Scope N_scope.

Definition arm_matches (h : header) (ftyp_seen : bool) (a : arm) : bool :=
  match a with
  | ANames l => existsb (is_type h) l
  | AGuardNoFtyp => negb ftyp_seen
  | AAny => true
  end.
Fixpoint arm_index (l : list arm) (h : header) (ftyp_seen : bool) (i : nat) : nat :=
  match l with
  | [] => i
  | a :: r => if arm_matches h ftyp_seen a then i else arm_index r h ftyp_seen (S i)
  end.

Definition filler_body (s : st) (start : N) (h : header) : prog st :=
  n <~ skip_box h ;;
  bs <~ lift (add_u64 3 n (encoded_len h)) ;;
  d <~ lift (extend_if_adjacent (st_data s) start bs) ;;
  Ret (Ok {| st_ftyp := st_ftyp s; st_moov := st_moov s; st_data := d |}).

Definition ftyp_body (s : st) (h : header) : prog st :=
  match st_ftyp s with
  | Some _ => Ret (EParse InvalidBoxLayout)
  | None =>
      payload <~ read_data h MAX_FTYP_SIZE ;;
      '(major, brands) <~ lift (parse_ftyp payload) ;;
      if existsb (bytes_eqb COMPATIBLE_BRAND) brands
      then Ret (Ok {| st_ftyp := Some payload; st_moov := st_moov s; st_data := st_data s |})
      else Ret (EParse (UnsupportedFormat major))
  end.

Definition mdat_body (cfg : config) (s : st) (start : N) (h : header) : prog st :=
  h' <~ lift (match box_data_size h, cumulative_mdat_box_size cfg with
              | Ok None, Some t => overwrite_size h t
              | _, _ => Ok h
              end) ;;
  n <~ skip_box h' ;;
  bs <~ lift (add_u64 3 n (encoded_len h')) ;;
  match st_data s with
  | Some sp =>
      e <~ lift (add_u64 4 (s_off sp) (s_len sp)) ;;
      if e =? start then
        l <~ lift (add_u64 5 (s_len sp) bs) ;;
        Ret (Ok {| st_ftyp := st_ftyp s; st_moov := st_moov s; st_data := Some {| s_off := s_off sp; s_len := l |} |})
      else Ret (EParse UnsupportedBoxLayout)
  | None => Ret (Ok {| st_ftyp := st_ftyp s; st_moov := st_moov s; st_data := Some {| s_off := start; s_len := bs |} |})
  end.

Definition moov_body (cfg : config) (s : st) (start : N) (h : header) : prog st :=
  payload <~ read_data h (max_metadata_size cfg) ;;
  kids <~ lift (moov_check payload) ;;
  Ret (Ok {| st_ftyp := st_ftyp s; st_moov := Some (kids, start); st_data := st_data s |}).

Definition other_body (h : header) : prog st :=
  n <~ skip_box h ;;
  _ <~ lift (add_u64 3 n (encoded_len h)) ;;
  Ret (EParse (UnsupportedBox (match htype h with FourCC t => t | Uuid u => u end))).

(* the bodies of the arms, in source order: free|skip, ftyp, `_ if ftyp.is_none()`, mdat, moov, meta|meco, anything else *)
Definition arm_body (i : nat) (cfg : config) (s : st) (start : N) (h : header) : prog st :=
  match i with
  | 0%nat => filler_body s start h
  | 1%nat => ftyp_body s h
  | 2%nat => Ret (EParse InvalidBoxLayout)
  | 3%nat => mdat_body cfg s start h
  | 4%nat => moov_body cfg s start h
  | 5%nat => filler_body s start h
  | _ => other_body h
  end.

Definition ftyp_seen (s : st) : bool := match st_ftyp s with Some _ => true | None => false end.

Definition step_arms (cfg : config) (s : st) : prog st :=
  start <~ do_pos ;;
  h <~ read_header ;;
  arm_body (arm_index DISPATCH_SRC h (ftyp_seen s) 0) cfg s start h.
