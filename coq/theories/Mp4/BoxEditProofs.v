(* C16 with caller edits: the bytes written with the calculated headers are exactly encoded_len many, for EVERY tree
   (whatever was edited, at any depth); and on a tree whose payload lengths are the declared ones (anything obtained by
   parsing and forcing) the calculated serialisation is the plain one of Mp4/Box.v. *)
From Coq Require Import List NArith Bool Lia.
From Coq.Strings Require Import Byte.
From MS Require Import Base.Bytes Base.Outcome Mp4.Header Mp4.HeaderProofs Mp4.Box Mp4.BoxLazy Mp4.BoxProofsLazy Mp4.BoxEdit.
Import ListNotations.
Open Scope N_scope.
Arguments N.add : simpl never.
Arguments N.eqb : simpl never.
Arguments N.ltb : simpl never.
Arguments N.leb : simpl never.

Lemma with_u32_type t n : htype (with_u32_data_size t n) = t.
Proof. unfold with_u32_data_size. destruct (_ <=? _); reflexivity. Qed.
Lemma with_data_size_type t n h : with_data_size t n = Ok h -> htype h = t.
Proof.
  unfold with_data_size. destruct (n <=? U32MAX).
  - intros [= <-]. apply with_u32_type.
  - destruct (_ <=? U64MAX); [intros [= <-]; reflexivity | discriminate].
Qed.

Lemma calc_header_type h n h' : calc_header h n = Ok h' -> htype h' = htype h.
Proof.
  unfold calc_header. destruct (box_data_size h) as [[m|]|e|e|k|]; try (intros [= <-]; reflexivity).
  destruct (m =? n); [intros [= <-]; reflexivity|].
  destruct (with_data_size (htype h) n) as [h2|e|e|k|] eqn:E; try discriminate.
  intros [= <-]. eapply with_data_size_type; eauto.
Qed.

Lemma app_len {A} (a b : list A) : N.of_nat (length (a ++ b)) = N.of_nat (length a) + N.of_nat (length b).
Proof. rewrite app_length. lia. Qed.

(* for every tree: if it serialises, its encoded length is the number of bytes written *)
Theorem put_calc_len : forall n, node_wf n = true -> forall b, put_calc n = Ok b -> len_calc n = Ok (N.of_nat (length b)).
Proof.
  induction n as [h d | h ks IH | h w c e] using node_ind'; intros Hwf b; cbn [put_calc len_calc].
  - cbn [node_wf node_hdr] in Hwf. rewrite andb_true_r in Hwf.
    destruct (calc_header h (N.of_nat (length d))) as [h'|x|x|x|] eqn:E; cbn [rbind]; try discriminate.
    intros [= <-]. rewrite app_len, hdr_put_length; [reflexivity|].
    rewrite (calc_header_type _ _ _ E). exact Hwf.
  - cbn [node_wf node_hdr] in Hwf. apply andb_true_iff in Hwf as [Ht Hks].
    assert (Hsum : forall p, cat_res (map put_calc ks) = Ok p -> sum_res (map len_calc ks) = Ok (N.of_nat (length p))).
    { clear Ht. induction ks as [|k r IHr]; intros p; cbn [map cat_res sum_res].
      - intros [= <-]. reflexivity.
      - cbn [forallb] in Hks. apply andb_true_iff in Hks as [Hk Hr]. inversion IH as [|? ? IHk IHrest]; subst.
        destruct (put_calc k) as [bk|x|x|x|] eqn:Ek; cbn [rbind]; try discriminate.
        destruct (cat_res (map put_calc r)) as [br|x|x|x|] eqn:Er; cbn [rbind]; try discriminate.
        intros [= <-]. rewrite (IHk Hk bk eq_refl). cbn [rbind]. rewrite (IHr IHrest Hr br eq_refl). cbn [rbind].
        rewrite app_len. reflexivity. }
    destruct (cat_res (map put_calc ks)) as [p|x|x|x|] eqn:Ep; cbn [rbind]; try discriminate.
    rewrite (Hsum p eq_refl). cbn [rbind].
    destruct (calc_header h (N.of_nat (length p))) as [h'|x|x|x|] eqn:E; cbn [rbind]; try discriminate.
    intros [= <-]. rewrite app_len, hdr_put_length; [reflexivity|].
    rewrite (calc_header_type _ _ _ E). exact Ht.
  - cbn [node_wf node_hdr] in Hwf. rewrite andb_true_r in Hwf.
    destruct (calc_header h (4 + (4 + N.of_nat (length e)))) as [h'|x|x|x|] eqn:E; cbn [rbind]; try discriminate.
    intros [= <-]. rewrite app_len, hdr_put_length; [|rewrite (calc_header_type _ _ _ E); exact Hwf].
    f_equal. f_equal. cbn [length]. lia.
Qed.

(* ------------------------------------------------------------------ unchanged trees: the calculated header is the parsed one *)
Definition payload_len (n : node) : N :=
  match n with
  | Raw _ d => N.of_nat (length d)
  | Cont _ ks => nodes_encoded_len ks
  | Tab _ _ _ e => 4 + (4 + N.of_nat (length e))
  end.
Definition declares (h : header) (plen : N) : Prop :=
  match box_data_size h with Ok (Some m) => m = plen | _ => True end.
(* every header declares the payload length its box has (or none: until-end) *)
Inductive sized : node -> Prop :=
  | sized_raw h d : declares h (N.of_nat (length d)) -> sized (Raw h d)
  | sized_cont h ks : declares h (nodes_encoded_len ks) -> Forall sized ks -> sized (Cont h ks)
  | sized_tab h w c e : declares h (4 + (4 + N.of_nat (length e))) -> sized (Tab h w c e).

Lemma calc_header_declares h p : declares h p -> calc_header h p = Ok h.
Proof.
  unfold declares, calc_header. destruct (box_data_size h) as [[m|]|e|e|k|]; try reflexivity.
  intros ->. rewrite N.eqb_refl. reflexivity.
Qed.

Lemma calc_unchanged : forall n, sized n -> len_calc n = Ok (node_encoded_len n) /\ put_calc n = Ok (put_node n).
Proof.
  induction n as [h d | h ks IH | h w c e] using node_ind'; intros Hs; inversion Hs as [? ? Hd | ? ? Hd Hk | ? ? ? ? Hd]; subst;
    cbn [len_calc put_calc node_encoded_len].
  - rewrite (calc_header_declares _ _ Hd). cbn [rbind]. split; reflexivity.
  - assert (Hsum : sum_res (map len_calc ks) = Ok (nodes_encoded_len ks) /\ cat_res (map put_calc ks) = Ok (put_nodes ks)).
    { clear Hd Hs. induction ks as [|k r IHr]; [split; reflexivity|].
      inversion IH as [|? ? IHk IHrest]; subst. inversion Hk as [|? ? Hk1 Hk2]; subst.
      destruct (IHk Hk1) as [E1 E2]. destruct (IHr IHrest Hk2) as [E3 E4].
      cbn [map sum_res cat_res]. rewrite E1, E2. cbn [rbind]. rewrite E3, E4. cbn [rbind].
      split; [unfold nodes_encoded_len; reflexivity | rewrite put_nodes_cons; reflexivity]. }
    destruct Hsum as [E1 E2]. rewrite E1, E2. cbn [rbind]. rewrite (calc_header_declares _ _ Hd). cbn [rbind].
    split; [reflexivity | rewrite put_node_cont; reflexivity].
  - cbv zeta. rewrite (calc_header_declares _ _ Hd). cbn [rbind]. split; reflexivity.
Qed.

Lemma calc_unchanged_list ns : Forall sized ns -> lens_calc ns = Ok (nodes_encoded_len ns) /\ puts_calc ns = Ok (put_nodes ns).
Proof.
  unfold lens_calc, puts_calc. induction 1 as [|k r Hk _ IH]; [split; reflexivity|].
  destruct (calc_unchanged k Hk) as [E1 E2]. destruct IH as [E3 E4].
  cbn [map sum_res cat_res]. rewrite E1, E2. cbn [rbind]. rewrite E3, E4. cbn [rbind].
  split; [reflexivity | rewrite put_nodes_cons; reflexivity].
Qed.

Lemma parse_boxes_sized fuel : forall buf ns, parse_boxes fuel buf = Ok ns -> Forall sized ns.
Proof.
  induction fuel as [|fuel IH]; intros buf ns H.
  - destruct buf; cbn [parse_boxes] in H; [injection H as <-; constructor | discriminate].
  - destruct buf as [|b0 buf0]; [cbn [parse_boxes] in H; injection H as <-; constructor|].
    rewrite parse_boxes_step in H by discriminate.
    destruct (hdr_read (b0 :: buf0)) as [[h rest]|] eqn:Eh; [|discriminate].
    destruct (box_data_size h) as [ods| | | |] eqn:Eb; cbn [rbind] in H; try discriminate.
    destruct ods as [n|].
    + destruct (n <=? N.of_nat (length rest)) eqn:Ln; [|discriminate]. apply N.leb_le in Ln.
      destruct (parse_boxes fuel (skipn (N.to_nat n) rest)) as [r| | | |] eqn:Er; cbn [rbind] in H; try discriminate.
      injection H as <-. constructor; [|exact (IH _ _ Er)].
      constructor. unfold declares. rewrite Eb. rewrite firstn_length. lia.
    + injection H as <-. constructor; [|constructor]. constructor. unfold declares. rewrite Eb. exact I.
Qed.

Lemma forces_len n n' : forces n n' -> node_wf n = true -> node_encoded_len n' = node_encoded_len n.
Proof.
  intros Hf Hw. rewrite <- (node_encoded_len_ok n Hw), <- (node_encoded_len_ok n' (forces_wf _ _ Hf Hw)).
  rewrite (forces_put _ _ Hf). reflexivity.
Qed.

Lemma forces_sized n n' : forces n n' -> node_wf n = true -> sized n -> sized n'.
Proof.
  induction 1 as [n|a b c H1 IH1 H2 IH2|n n' E|w n n' E|h a k k' b Hk IH]; intros Hw Hs.
  - exact Hs.
  - apply IH2; [exact (forces_wf _ _ H1 Hw) | apply IH1; assumption].
  - destruct n as [h d|h ks|h w c e]; cbn [force_cont] in E; try (injection E as <-; exact Hs).
    destruct (parse_boxes (boxes_fuel d) d) as [ks| | | |] eqn:Ep; cbn [rbind] in E; try discriminate.
    injection E as <-. inversion Hs as [? ? Hd | |]; subst. constructor; [|exact (parse_boxes_sized _ _ _ Ep)].
    rewrite <- (nodes_encoded_len_ok ks (parse_boxes_wf _ _ _ Ep)), (parse_boxes_put _ _ _ Ep). exact Hd.
  - destruct n as [h d|h ks|h w0 c e]; cbn [force_table] in E; try (injection E as <-; exact Hs).
    destruct (parse_table w d) as [[c e]| | | |] eqn:Ep; cbn [rbind] in E; try discriminate.
    injection E as <-. inversion Hs as [? ? Hd | |]; subst. constructor.
    apply parse_table_inv in Ep. destruct Ep as [Ed _]. rewrite Ed in Hd.
    rewrite !app_length, length_n2be in Hd. cbn [length] in Hd.
    replace (4 + (4 + N.of_nat (length e))) with (N.of_nat (4 + (4 + length e))) by lia. exact Hd.
  - cbn [node_wf node_hdr] in Hw. apply andb_prop in Hw. destruct Hw as [Ht Hks].
    rewrite forallb_app_mid in Hks. apply andb_prop in Hks. destruct Hks as [Ha Hks]. apply andb_prop in Hks. destruct Hks as [Hkw Hb].
    inversion Hs as [| ? ? Hd Hall |]; subst.
    apply Forall_app in Hall. destruct Hall as [Hsa Hsk]. inversion Hsk as [|? ? Hsk1 Hsb]; subst.
    constructor.
    + unfold nodes_encoded_len in *. rewrite map_app, fold_right_app in *. cbn [map fold_right] in *.
      rewrite (forces_len _ _ Hk Hkw). exact Hd.
    + apply Forall_app. split; [exact Hsa|]. constructor; [apply IH; assumption | exact Hsb].
Qed.

Lemma forces_list_sized ns ns' : Forall2 forces ns ns' -> forallb node_wf ns = true -> Forall sized ns -> Forall sized ns'.
Proof.
  induction 1 as [|k k' r r' Hk _ IH]; [constructor|]. cbn [forallb]. intros Hw Hs. apply andb_prop in Hw. destruct Hw as [H1 H2].
  inversion Hs; subst. constructor; [eapply forces_sized; eauto | apply IH; assumption].
Qed.

(* what was parsed and forced, serialised with calculated headers, is the parsed byte string, and its calculated length
   is its length: the plain model of Mp4/Box.v is the no-edit case of this one *)
Theorem calc_is_plain : forall (fuel : nat) (buf : bytes) (ns ns' : list node),
  parse_boxes fuel buf = Ok ns -> Forall2 forces ns ns' ->
  puts_calc ns' = Ok buf /\ lens_calc ns' = Ok (N.of_nat (length buf)).
Proof.
  intros fuel buf ns ns' Hp Hf.
  pose proof (parse_boxes_wf _ _ _ Hp) as Hw. pose proof (parse_boxes_sized _ _ _ Hp) as Hs.
  pose proof (forces_list_sized _ _ Hf Hw Hs) as Hs'.
  destruct (calc_unchanged_list ns' Hs') as [E1 E2].
  destruct (lazy_roundtrip fuel buf ns ns' Hp Hf) as [_ Eb].
  destruct (encoded_len_agrees fuel buf ns ns' Hp Hf) as (_ & El & _).
  rewrite E2, E1, Eb, El. split; reflexivity.
Qed.

(* the edited trees of the batch: whatever tree, list version of put_calc_len *)
Theorem puts_calc_len : forall ns, forallb node_wf ns = true -> forall b, puts_calc ns = Ok b -> lens_calc ns = Ok (N.of_nat (length b)).
Proof.
  unfold puts_calc, lens_calc. induction ns as [|k r IH]; intros Hw b; cbn [map cat_res sum_res].
  - intros [= <-]. reflexivity.
  - cbn [forallb] in Hw. apply andb_prop in Hw. destruct Hw as [Hk Hr].
    destruct (put_calc k) as [bk|x|x|x|] eqn:Ek; cbn [rbind]; try discriminate.
    destruct (cat_res (map put_calc r)) as [br|x|x|x|] eqn:Er; cbn [rbind]; try discriminate.
    intros [= <-]. rewrite (put_calc_len k Hk bk Ek). cbn [rbind]. rewrite (IH Hr br eq_refl). cbn [rbind].
    rewrite app_len. reflexivity.
Qed.

(* ------------------------------------------------------------------ the edit keeps the tree well-formed, so put_calc_len applies to it *)
From MS Require Import Mp4.BoxOps Mp4.BoxOpsProofs.
Definition Rwf (n n' : node) : Prop := node_wf n = true -> node_wf n' = true.

Lemma Rwf_kids h ks ks' : Forall2 Rwf ks ks' -> Rwf (Cont h ks) (Cont h ks').
Proof.
  intros F Hw. cbn [node_wf node_hdr] in *. apply andb_prop in Hw. destruct Hw as [Ht Hk]. rewrite Ht. cbn [andb].
  induction F as [|k k' r r' Hkk _ IH]; [reflexivity|]. cbn [forallb] in *. apply andb_prop in Hk. destruct Hk as [H1 H2].
  rewrite (Hkk H1), (IH H2). reflexivity.
Qed.

Lemma F2_Rwf ks ks' : Forall2 Rwf ks ks' -> forallb node_wf ks = true -> forallb node_wf ks' = true.
Proof.
  induction 1 as [|k k' r r' Hk _ IH]; [reflexivity|]. cbn [forallb]. intros H. apply andb_prop in H. destruct H as [H1 H2].
  rewrite (Hk H1), (IH H2). reflexivity.
Qed.

Lemma set_table_wf m n n' u : set_table m n = Ok (n', u) -> Rwf n n'.
Proof. destruct n as [h d|h ks|h w c e]; cbn [set_table]; try discriminate. intros [= <- _] Hw. exact Hw. Qed.

Lemma trak_co_set_wf m ks ks' u : trak_co ks (set_table m) = Ok (ks', u) -> Forall2 Rwf ks ks'.
Proof.
  apply (trak_co_rel Rwf).
  - intros n H; exact H.
  - intros a b c H1 H2 H; auto.
  - intros n n' E. exact (forces_wf _ _ (forces_cont _ _ E)).
  - intros w n n' E. exact (forces_wf _ _ (forces_table w _ _ E)).
  - exact Rwf_kids.
  - intros n n' a. apply set_table_wf.
Qed.

Lemma edit_trak_wf i m : forall kids kids', edit_trak i m kids = Ok kids' -> forallb node_wf kids = true -> forallb node_wf kids' = true.
Proof.
  unfold edit_trak. revert i. intros i kids. revert i.
  induction kids as [|k r IH]; intros i kids' H Hw; cbn [nth_trak] in H.
  - injection H as <-. reflexivity.
  - cbn [forallb] in Hw. apply andb_prop in Hw. destruct Hw as [Hk Hr].
    destruct (node_is t_trak k).
    + destruct (force_cont k) as [k'| | | |] eqn:E; cbn [rbind] in H; try discriminate.
      pose proof (forces_wf _ _ (forces_cont _ _ E) Hk) as Hk'.
      destruct i as [|i'].
      * destruct (trak_co (kids_of k') (set_table m)) as [[tk u]| | | |] eqn:E2; cbn [rbind] in H; try discriminate.
        injection H as <-. cbn [forallb]. rewrite Hr, andb_true_r.
        apply trak_co_set_wf in E2.
        destruct k' as [h d|h ks|h w c e]; cbn [kids_of set_kids] in *; try exact Hk'.
        exact (Rwf_kids h ks tk E2 Hk').
      * destruct (nth_trak i' r _) as [r'| | | |] eqn:E2; cbn [rbind] in H; try discriminate.
        injection H as <-. cbn [forallb]. rewrite Hk', (IH _ _ E2 Hr). reflexivity.
    + destruct (nth_trak i r _) as [r'| | | |] eqn:E2; cbn [rbind] in H; try discriminate.
      injection H as <-. cbn [forallb]. rewrite Hk, (IH _ _ E2 Hr). reflexivity.
Qed.

(* the batch's statement: parse a moov payload, any accessor calls, one table replaced by m entries: if the tree serialises
   (no u64 overflow), the number of bytes written is the encoded length *)
Theorem edited_moov_len : forall (p : bytes) (kids : list node) (ops : list (nat * nat)) (i m : nat) (kids' : list node) (b : bytes),
  parse_moov p = Ok kids -> edit_trak i m (fst (run_ops ops 0 kids)) = Ok kids' ->
  puts_calc kids' = Ok b -> lens_calc kids' = Ok (N.of_nat (length b)).
Proof.
  intros p kids ops i m kids' b Hp He Hb. apply puts_calc_len; [|exact Hb].
  eapply edit_trak_wf; [exact He|].
  unfold parse_moov in Hp. destruct (parse_boxes (boxes_fuel p) p) as [ks| | | |] eqn:E; cbn [rbind] in Hp; try discriminate.
  destruct (existsb (node_is t_trak) ks); [|discriminate]. injection Hp as <-.
  eapply forces_list_wf; [|exact (parse_boxes_wf _ _ _ E)].
  apply run_ops_forces.
Qed.

(* ------------------------------------------------------------------ the sanitizer's own tree operations keep every header's declared size:
   lazy parses and the in-place rewrite of the table entries (same number of bytes).  So on the tree the sanitizer serialises, the
   calculated header of every box IS its parsed header - the assumption under which Mp4/Box.v writes the parsed headers back. *)
Definition Rsz (n n' : node) : Prop :=
  node_wf n = true -> sized n -> node_wf n' = true /\ sized n' /\ node_encoded_len n' = node_encoded_len n.

Lemma Rsz_refl n : Rsz n n.
Proof. intros Hw Hs. auto. Qed.
Lemma Rsz_trans a b c : Rsz a b -> Rsz b c -> Rsz a c.
Proof. intros H1 H2 Hw Hs. destruct (H1 Hw Hs) as (Hw1 & Hs1 & E1). destruct (H2 Hw1 Hs1) as (Hw2 & Hs2 & E2). repeat split; auto. congruence. Qed.
Lemma Rsz_forces n n' : forces n n' -> Rsz n n'.
Proof. intros Hf Hw Hs. repeat split; [exact (forces_wf _ _ Hf Hw) | exact (forces_sized _ _ Hf Hw Hs) | exact (forces_len _ _ Hf Hw)]. Qed.

Lemma Rsz_list ks ks' : Forall2 Rsz ks ks' -> forallb node_wf ks = true -> Forall sized ks ->
  forallb node_wf ks' = true /\ Forall sized ks' /\ nodes_encoded_len ks' = nodes_encoded_len ks.
Proof.
  induction 1 as [|k k' r r' Hk _ IH]; intros Hw Hs; [auto|].
  cbn [forallb] in Hw. apply andb_prop in Hw. destruct Hw as [Hw1 Hw2]. inversion Hs as [|? ? Hs1 Hs2]; subst.
  destruct (Hk Hw1 Hs1) as (A & B & C). destruct (IH Hw2 Hs2) as (D & E & F).
  repeat split; [cbn [forallb]; rewrite A, D; reflexivity | constructor; assumption |].
  unfold nodes_encoded_len in *. cbn [map fold_right]. rewrite C, F. reflexivity.
Qed.

Lemma Rsz_kids h ks ks' : Forall2 Rsz ks ks' -> Rsz (Cont h ks) (Cont h ks').
Proof.
  intros F Hw Hs. cbn [node_wf node_hdr] in Hw. apply andb_prop in Hw. destruct Hw as [Ht Hk].
  inversion Hs as [| ? ? Hd Hall |]; subst.
  destruct (Rsz_list _ _ F Hk Hall) as (A & B & C).
  repeat split.
  - cbn [node_wf node_hdr]. rewrite Ht, A. reflexivity.
  - constructor; [rewrite C; exact Hd | exact B].
  - cbn [node_encoded_len]. fold (nodes_encoded_len ks'). fold (nodes_encoded_len ks). rewrite C. reflexivity.
Qed.

Lemma shift_table_Rsz f g n n' u : shift_table f g n = Ok (n', u) -> Rsz n n'.
Proof.
  destruct n as [h d|h ks|h w c e]; cbn [shift_table]; intros H; try discriminate.
  destruct (map_entries (S (length e)) (N.to_nat w) (if w =? 4 then f else g) e) as [e'| | | |] eqn:E; cbn [rbind] in H; try discriminate.
  injection H as <- _. apply map_entries_length in E. intros Hw Hs. inversion Hs as [| | ? ? ? ? Hd]; subst.
  repeat split; [exact Hw | constructor; rewrite E; exact Hd | cbn [node_encoded_len]; rewrite E; reflexivity].
Qed.

Lemma each_trak_shift_Rsz f g kids kids' l : each_trak kids (shift_table f g) = Ok (kids', l) -> Forall2 Rsz kids kids'.
Proof.
  apply (each_trak_rel Rsz).
  - exact Rsz_refl.
  - exact Rsz_trans.
  - intros n n' E. apply Rsz_forces, forces_cont, E.
  - intros w n n' E. apply Rsz_forces. exact (forces_table w _ _ E).
  - exact Rsz_kids.
  - intros n n' a. apply shift_table_Rsz.
Qed.

(* the moov arm followed by the offset rewrite, as the sanitizer does them: what is written with calculated headers is what is written with
   the parsed headers, and its calculated length is its length *)
Theorem sanitizer_tree_keeps_headers : forall (p : bytes) (kids kids' : list node) (f g : N -> res N) (l : list unit),
  moov_check p = Ok kids -> each_trak kids (shift_table f g) = Ok (kids', l) ->
  puts_calc kids' = Ok (put_nodes kids') /\ lens_calc kids' = Ok (nodes_encoded_len kids') /\
  nodes_encoded_len kids' = N.of_nat (length p).
Proof.
  intros p kids kids' f g l Hm Hs.
  assert (Hk : forallb node_wf kids = true /\ Forall sized kids /\ nodes_encoded_len kids = N.of_nat (length p)).
  { unfold moov_check in Hm. destruct (parse_moov p) as [k0| | | |] eqn:Ep; cbn [rbind] in Hm; try discriminate.
    destruct (each_trak k0 tab_count) as [[k1 cs]| | | |] eqn:Et; cbn [rbind] in Hm; try discriminate.
    destruct (sum_u32 cs None); cbn [rbind] in Hm; try discriminate. injection Hm as <-.
    unfold parse_moov in Ep. destruct (parse_boxes (boxes_fuel p) p) as [k00| | | |] eqn:Eb; cbn [rbind] in Ep; try discriminate.
    destruct (existsb (node_is t_trak) k00); [|discriminate]. injection Ep as <-.
    pose proof (accessors_are_forcings _ _ _ Et) as Hf.
    pose proof (parse_boxes_wf _ _ _ Eb) as Hw. pose proof (parse_boxes_sized _ _ _ Eb) as Hz.
    repeat split; [exact (forces_list_wf _ _ Hf Hw) | exact (forces_list_sized _ _ Hf Hw Hz) |].
    destruct (encoded_len_agrees _ _ _ _ Eb Hf) as (_ & E & _). exact E. }
  destruct Hk as (Hw & Hz & El).
  destruct (Rsz_list _ _ (each_trak_shift_Rsz _ _ _ _ _ Hs) Hw Hz) as (Hw' & Hz' & El').
  destruct (calc_unchanged_list kids' Hz') as [E1 E2].
  repeat split; [exact E2 | exact E1 | congruence].
Qed.
