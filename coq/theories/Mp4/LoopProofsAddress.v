(* C01, the statement in the words of its title: in the file a caller writes (returned metadata, then the media span of the
   input: Mp4/SpliceSpec.v) every byte of the media span sits where the REWRITTEN chunk-offset entries say it sits -
   for an entry e of the input's tables and any k with e + k inside the media span, the byte at (new entry) + k of the
   spliced file is the byte at e + k of the input, and that position is inside the spliced file.
   On LoopProofsRewrite.C01_toplevel_lemma (which gives the new entries as e + delta, exactly, and non-negative) and
   LoopProofsFixpoint.splice_get_media. *)
From Coq Require Import List NArith ZArith Bool Lia Arith.
From Coq.Strings Require Import Byte.
From MS Require Import Base.Bytes Base.Outcome Base.Prog Mp4.Header Mp4.Box Mp4.San Mp4.Spec Mp4.ShiftSpec Mp4.SpliceSpec
  Mp4.LoopProofsRewrite Mp4.LoopProofsFixpoint.
Import ListNotations.
Open Scope N_scope.

Theorem same_media_byte :
  forall (cfg : config) (lenient : bool) (inp : input) (fuel : nat) (o : out) (md : bytes) (pad : N),
  ilen inp <= U64MAX -> (forall t, cumulative_mdat_box_size cfg = Some t -> t <= U32MAX) ->
  mp4_sanitize cfg lenient U64MAX' inp fuel = Ok o -> o_metadata o = Some (md, pad) ->
  exists bs m fp mp' psz ts,
    tiling (cumulative_mdat_box_size cfg) inp = Some bs /\ last_moov bs = Some m /\
    metadata_shape (md_input md pad) = Some (fp, mp', psz) /\
    co_tables (tb_payload inp m) = Some ts /\
    let off := s_off (o_data o) in
    let len := s_len (o_data o) in
    let J := splice md pad inp off len in
    let new := fun e : N => Z.to_N (Z.of_N e + (Z.of_N (blen md + pad) - Z.of_N off)) in
    co_tables mp' = Some (map (fun t : N * list N => (fst t, map new (snd t))) ts) /\
    forall t e k, In t ts -> In e (snd t) -> off <= e + k < off + len ->
      new e + k < ilen J /\ iget J (new e + k) = iget inp (e + k).
Proof.
  intros cfg lenient inp fuel o md pad Hl Hc H E.
  destruct (C01_toplevel_lemma cfg lenient inp fuel o md pad Hl Hc H E)
    as (bs & m & fp & mp' & psz & ts & T & Lm & S & CT & R).
  cbv zeta in R. destruct R as (_ & CT' & Rng & _).
  exists bs, m, fp, mp', psz, ts.
  split; [exact T|]. split; [exact Lm|]. split; [exact S|]. split; [exact CT|]. cbv zeta.
  split; [exact CT'|].
  intros t e k Ht He Hk. specialize (Rng t e Ht He). destruct Rng as [Rn _].
  set (off := s_off (o_data o)) in *. set (len := s_len (o_data o)) in *.
  assert (Q : Z.to_N (Z.of_N e + (Z.of_N (blen md + pad) - Z.of_N off)) + k = blen md + pad + (e + k - off)) by lia.
  rewrite Q. split.
  - unfold splice. cbn [ilen]. lia.
  - rewrite splice_get_media. f_equal. lia.
Qed.

(* ... and the same, with the spliced file read by the SPECIFICATION ITSELF: its tiling, its last moov box, the chunk-offset tables
   of that box's payload (resanitize_structure: that payload is the returned moov payload) - so the statement no longer mentions
   the returned metadata except through the file the caller writes; the second run's result (C02 b) comes with it *)
Theorem spliced_file_addresses_same_bytes :
  forall (cfg : config) (lenient lenient2 : bool) (inp : input) (fuel fuel2 : nat) (o : out) (md : bytes) (pad : N),
  max_metadata_size cfg < 4294967296 -> ilen inp <= U64MAX ->
  (forall t, cumulative_mdat_box_size cfg = Some t -> t <= U32MAX) ->
  mp4_sanitize cfg lenient U64MAX' inp fuel = Ok o -> o_metadata o = Some (md, pad) ->
  let off := s_off (o_data o) in
  let len := s_len (o_data o) in
  let J := splice md pad inp off len in
  ilen J <= U64MAX -> (N.to_nat (ilen J / 8) < fuel2)%nat ->
  exists bs m ts bs2 m2,
    tiling (cumulative_mdat_box_size cfg) inp = Some bs /\ last_moov bs = Some m /\ co_tables (tb_payload inp m) = Some ts /\
    tiling (cumulative_mdat_box_size cfg) J = Some bs2 /\ last_moov bs2 = Some m2 /\
    let new := fun e : N => Z.to_N (Z.of_N e + (Z.of_N (blen md + pad) - Z.of_N off)) in
    co_tables (tb_payload J m2) = Some (map (fun t : N * list N => (fst t, map new (snd t))) ts) /\
    (forall t e k, In t ts -> In e (snd t) -> off <= e + k < off + len ->
       new e + k < ilen J /\ iget J (new e + k) = iget inp (e + k)) /\
    mp4_sanitize cfg lenient2 U64MAX' J fuel2 = Ok {| o_metadata := None; o_data := {| s_off := blen md + pad; s_len := len |} |}.
Proof.
  intros cfg lenient lenient2 inp fuel fuel2 o md pad Hm Hl Hc H E off len J HJ Hf.
  destruct (same_media_byte cfg lenient inp fuel o md pad Hl Hc H E) as (bs & m & fp & mp' & psz & ts & T & Lm & S & CT & R).
  cbv zeta in R. destruct R as [CT' B].
  destruct (resanitize_structure cfg inp lenient lenient2 Hm Hl Hc fuel fuel2 o md pad H E HJ Hf)
    as (bs2 & m2 & fp2 & mp2 & psz2 & Shape & T2 & L2 & Pm & R2).
  rewrite S in Shape. injection Shape as _ Emp _. subst mp2.
  exists bs, m, ts, bs2, m2.
  split; [exact T|]. split; [exact Lm|]. split; [exact CT|]. split; [exact T2|]. split; [exact L2|]. cbv zeta.
  split; [fold off len J in Pm; rewrite Pm; exact CT'|]. split; [exact B | exact R2].
Qed.
