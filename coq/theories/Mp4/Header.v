(* mp4san/src/parse/header.rs : BoxHeader, BoxSize, BoxType -- executable model (definitions only).
   Every function follows the Rust function of the same name; u32/u64 wrap/overflow is explicit. *)
From Coq Require Import List NArith Bool Lia.
From Coq.Strings Require Import Byte.
From MS Require Import Base.Bytes Base.Outcome.
Import ListNotations.
Open Scope N_scope.

Definition U32MAX : N := 4294967295.
Definition U64MAX : N := 18446744073709551615.

Inductive box_size := UntilEof | Size (n : N) (* u32 *) | Ext (n : N) (* u64 *).
(* FourCC t : 4 bytes, never equal to "uuid" when produced by [hdr_read]; Uuid u : 16 bytes *)
Inductive box_type := FourCC (t : bytes) | Uuid (u : bytes).
Record header := { htype : box_type; hsize : box_size }.

Definition UUID4 : bytes := [x75; x75; x69; x64].   (* "uuid" *)

Definition bytes_eqb (a b : bytes) : bool :=
  if list_eq_dec Byte.byte_eq_dec a b then true else false.

Definition box_type_eqb (a b : box_type) : bool :=
  match a, b with
  | FourCC x, FourCC y => bytes_eqb x y
  | Uuid x, Uuid y => bytes_eqb x y
  | _, _ => false
  end.

(* BoxHeader::encoded_len *)
Definition encoded_len (h : header) : N :=
  8 + (match hsize h with Ext _ => 8 | _ => 0 end) + (match htype h with Uuid _ => 16 | _ => 0 end).

(* BoxSize::size / BoxHeader::box_size *)
Definition box_size_of (h : header) : option N :=
  match hsize h with UntilEof => None | Size n => Some n | Ext n => Some n end.

(* BoxHeader::box_data_size : Err(InvalidInput) if size < header length *)
Definition box_data_size (h : header) : res (option N) :=
  match box_size_of h with
  | None => Ok None
  | Some sz => if sz <? encoded_len h then EParse InvalidInput else Ok (Some (sz - encoded_len h))
  end.

(* BoxHeader::put_buf *)
Definition hdr_put (h : header) : bytes :=
  (match hsize h with UntilEof => n2be 4 0 | Ext _ => n2be 4 1 | Size n => n2be 4 n end)
  ++ (match htype h with FourCC t => t | Uuid _ => UUID4 end)
  ++ (match hsize h with Ext n => n2be 8 n | _ => [] end)
  ++ (match htype h with Uuid u => u | _ => [] end).

(* BoxHeader::read on an in-memory byte string: None = ran out of bytes (UnexpectedEof).
   Order as in the source: 4 size bytes, 4 name bytes, then the 64-bit size if size==1, then 16 uuid bytes. *)
Definition hdr_read (l : bytes) : option (header * bytes) :=
  if Nat.ltb (length l) 8 then None else
  let sz := be2n (firstn 4 l) in
  let name := firstn 4 (skipn 4 l) in
  let r := skipn 8 l in
  match (if sz =? 0 then Some (UntilEof, r)
         else if sz =? 1 then
           (if Nat.ltb (length r) 8 then None else Some (Ext (be2n (firstn 8 r)), skipn 8 r))
         else Some (Size sz, r)) with
  | None => None
  | Some (size, r) =>
      if bytes_eqb name UUID4 then
        (if Nat.ltb (length r) 16 then None else Some ({| htype := Uuid (firstn 16 r); hsize := size |}, skipn 16 r))
      else Some ({| htype := FourCC name; hsize := size |}, r)
  end.

(* number of bytes [hdr_read] needs, given the first 8 (used by the streaming reader) *)

(* BoxHeader::with_u32_data_size : data_size is a u32 *)
Definition with_u32_data_size (t : box_type) (data_size : N) : header :=
  let hl := encoded_len {| htype := t; hsize := Size 0 |} in
  if data_size + hl <=? U32MAX then {| htype := t; hsize := Size (data_size + hl) |}
  else {| htype := t; hsize := Ext (data_size + encoded_len {| htype := t; hsize := Ext 0 |}) |}.

(* BoxHeader::with_data_size : data_size is a u64; Err(InvalidInput) on u64 overflow *)
Definition with_data_size (t : box_type) (data_size : N) : res header :=
  if data_size <=? U32MAX then Ok (with_u32_data_size t data_size)
  else
    let hl := encoded_len {| htype := t; hsize := Ext 0 |} in
    if data_size + hl <=? U64MAX then Ok {| htype := t; hsize := Ext (data_size + hl) |}
    else EParse InvalidInput.

(* BoxHeader::overwrite_size : assert_eq!(box_size, UntilEof) *)
Definition overwrite_size (h : header) (actual : N) : res header :=
  match hsize h with
  | UntilEof => Ok {| htype := htype h; hsize := Size actual |}
  | _ => Panic 1
  end.

(* well-formedness of a header value as produced by hdr_read / the constructors *)
Definition type_wf (t : box_type) : bool :=
  match t with
  | FourCC n => Nat.eqb (length n) 4 && negb (bytes_eqb n UUID4)
  | Uuid u => Nat.eqb (length u) 16
  end.
Definition size_wf (s : box_size) : bool :=
  match s with
  | UntilEof => true
  | Size n => (2 <=? n) && (n <=? U32MAX)
  | Ext n => n <=? U64MAX
  end.
Definition hdr_wf (h : header) : bool := type_wf (htype h) && size_wf (hsize h).
