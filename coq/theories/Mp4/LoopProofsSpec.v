(* The fold of the per-box transition (Mp4/LoopProofs.v) against the independent specification (Mp4/Spec.v):
   media run (C03), acceptance rules and rewrite plan (C05). *)
From Coq Require Import List NArith ZArith Bool Lia Arith.
From Coq.Strings Require Import Byte.
From MS Require Import Base.Bytes Base.Outcome Base.Prog Gen.Consts Gen.Kernels Mp4.Header Mp4.Box Mp4.San Mp4.Spec
  Mp4.HeaderProofs Mp4.LoopProofs.
Import ListNotations.
Open Scope N_scope.
Arguments N.add : simpl never.
Arguments N.sub : simpl never.
Arguments N.mul : simpl never.
Arguments N.div : simpl never.
Arguments N.modulo : simpl never.
Arguments N.pow : simpl never.
Arguments N.eqb : simpl never.
Arguments N.ltb : simpl never.
Arguments N.leb : simpl never.

(* ================================================================== kinds of top-level boxes *)
Inductive kind := KPad | KFtyp | KMdat | KMoov | KMeta | KOther.
Definition kind_of (b : tbox) : kind :=
  if is FREE b || is SKIP b then KPad
  else if is FTYP b then KFtyp
  else if is MDAT b then KMdat
  else if is MOOV b then KMoov
  else if is META b || is MECO b then KMeta
  else KOther.

Lemma is_excl b X Y : X <> Y -> is X b = true -> is Y b = false.
Proof. unfold is. intros Hne H. apply beq_eq in H. apply beq_neq. congruence. Qed.

Ltac excl H X :=
  rewrite ?(is_excl _ X FREE ltac:(discriminate) H), ?(is_excl _ X SKIP ltac:(discriminate) H),
          ?(is_excl _ X FTYP ltac:(discriminate) H), ?(is_excl _ X MDAT ltac:(discriminate) H),
          ?(is_excl _ X MOOV ltac:(discriminate) H), ?(is_excl _ X META ltac:(discriminate) H),
          ?(is_excl _ X MECO ltac:(discriminate) H).

Lemma kind_facts b :
  (is FREE b || is SKIP b = match kind_of b with KPad => true | _ => false end) /\
  (is FTYP b = match kind_of b with KFtyp => true | _ => false end) /\
  (is MDAT b = match kind_of b with KMdat => true | _ => false end) /\
  (is MOOV b = match kind_of b with KMoov => true | _ => false end) /\
  (is META b || is MECO b = match kind_of b with KMeta => true | _ => false end).
Proof.
  unfold kind_of.
  destruct (is FREE b) eqn:E1. { excl E1 FREE. cbn. repeat split. }
  destruct (is SKIP b) eqn:E2. { excl E2 SKIP. cbn. repeat split. }
  destruct (is FTYP b) eqn:E3. { excl E3 FTYP. cbn. repeat split. }
  destruct (is MDAT b) eqn:E4. { excl E4 MDAT. cbn. repeat split. }
  destruct (is MOOV b) eqn:E5. { excl E5 MOOV. cbn. repeat split. }
  destruct (is META b) eqn:E6. { excl E6 META. cbn. repeat split. }
  destruct (is MECO b) eqn:E7; cbn; repeat split.
Qed.

Lemma is_pad_kind b : is_pad b = match kind_of b with KPad => true | _ => false end.
Proof. unfold is_pad. apply kind_facts. Qed.
Lemma is_ftyp_kind b : is FTYP b = match kind_of b with KFtyp => true | _ => false end.
Proof. apply kind_facts. Qed.
Lemma is_mdat_kind b : is MDAT b = match kind_of b with KMdat => true | _ => false end.
Proof. apply kind_facts. Qed.
Lemma is_moov_kind b : is MOOV b = match kind_of b with KMoov => true | _ => false end.
Proof. apply kind_facts. Qed.
Lemma is_filler_kind b : is_filler b = match kind_of b with KPad | KMdat | KMeta => true | _ => false end.
Proof.
  unfold is_filler. destruct (kind_facts b) as (H1 & H2 & H3 & H4 & H5).
  rewrite <- !orb_assoc. rewrite (orb_assoc (is FREE b)), H1, H3, H5. destruct (kind_of b); reflexivity.
Qed.
Lemma is_body_kind b :
  is MOOV b || is MDAT b || is META b || is MECO b = match kind_of b with KMoov | KMdat | KMeta => true | _ => false end.
Proof.
  destruct (kind_facts b) as (H1 & H2 & H3 & H4 & H5).
  rewrite <- !orb_assoc. rewrite H5, H3, H4. destruct (kind_of b); reflexivity.
Qed.

Lemma box_step_kind cfg inp s b :
  box_step cfg inp s b =
  let n := tb_size b - tb_hlen b in
  match kind_of b with
  | KPad | KMeta =>
      match kind_of b, st_ftyp s with
      | KMeta, None => EParse InvalidBoxLayout
      | _, _ => Ok (set_data s (extend (st_data s) (tb_off b) (tb_size b)))
      end
  | KFtyp =>
      match st_ftyp s with
      | Some _ => EParse InvalidBoxLayout
      | None =>
          if MAX_FTYP_SIZE <? n then EParse InvalidInput else
          mb <- parse_ftyp (tb_payload inp b) ;;
          if existsb (bytes_eqb COMPATIBLE_BRAND) (snd mb)
          then Ok {| st_ftyp := Some (tb_payload inp b); st_moov := st_moov s; st_data := st_data s |}
          else EParse (UnsupportedFormat (fst mb))
      end
  | KMdat =>
      match st_ftyp s with
      | None => EParse InvalidBoxLayout
      | Some _ =>
          match st_data s with
          | Some sp =>
              if s_off sp + s_len sp =? tb_off b
              then Ok (set_data s (Some {| s_off := s_off sp; s_len := s_len sp + tb_size b |}))
              else EParse UnsupportedBoxLayout
          | None => Ok (set_data s (Some {| s_off := tb_off b; s_len := tb_size b |}))
          end
      end
  | KMoov =>
      match st_ftyp s with
      | None => EParse InvalidBoxLayout
      | Some _ =>
          if max_metadata_size cfg <? n then EParse InvalidInput else
          kids <- moov_check (tb_payload inp b) ;;
          Ok {| st_ftyp := st_ftyp s; st_moov := Some (kids, tb_off b); st_data := st_data s |}
      end
  | KOther =>
      match st_ftyp s with
      | None => EParse InvalidBoxLayout
      | Some _ => EParse (UnsupportedBox (unsup_name (tb_type b)))
      end
  end.
Proof.
  unfold box_step, kind_of.
  destruct (is FREE b || is SKIP b); [reflexivity|].
  destruct (is FTYP b); [reflexivity|].
  destruct (is MDAT b); [reflexivity|].
  destruct (is MOOV b); [reflexivity|].
  destruct (is META b || is MECO b); destruct (st_ftyp s); reflexivity.
Qed.

(* ================================================================== chains of boxes *)
Fixpoint chain (p : N) (bs : list tbox) (e : N) : Prop :=
  match bs with
  | [] => p = e
  | b :: r => tb_off b = p /\ 8 <= tb_hlen b /\ tb_hlen b <= tb_size b /\ chain (tb_end b) r e
  end.

Lemma tile_chain cum inp : forall f p bs, tile f cum inp p = Some bs -> chain p bs (ilen inp).
Proof.
  induction f as [|f IH]; intros p bs H.
  - cbn [tile] in H. destruct (ilen inp <=? p); [|discriminate].
    destruct (N.eqb_spec p (ilen inp)); [|discriminate]. injection H as <-. exact e.
  - rewrite tile_S in H. destruct (ilen inp <=? p).
    { destruct (N.eqb_spec p (ilen inp)); [|discriminate]. injection H as <-. exact e. }
    destruct (next_box cum inp p) as [b|] eqn:Eb; [|discriminate].
    destruct (ilen inp <? tb_end b); [discriminate|].
    destruct (tile f cum inp (tb_end b)) as [r|] eqn:Er; [|discriminate]. injection H as <-.
    destruct (next_box_facts _ _ _ _ Eb) as (Ho & H8 & Hs). cbn [chain]. repeat split; try assumption.
    apply IH. exact Er.
Qed.

Lemma chain_le : forall bs p e, chain p bs e -> p <= e.
Proof.
  induction bs as [|b r IH]; intros p e H; cbn [chain] in H; [lia|].
  destruct H as (Ho & H8 & Hs & Hc). apply IH in Hc. unfold tb_end in Hc. lia.
Qed.

Definition sumsz (l : list tbox) : N := fold_left (fun a x => a + tb_size x) l 0.
Lemma fold_left_sz l : forall a, fold_left (fun a x => a + tb_size x) l a = a + sumsz l.
Proof.
  unfold sumsz. induction l as [|b r IH]; intros a; cbn [fold_left]; [lia|].
  rewrite IH, (IH (0 + tb_size b)). lia.
Qed.
Lemma sumsz_cons b l : sumsz (b :: l) = tb_size b + sumsz l.
Proof. unfold sumsz at 1. cbn [fold_left]. rewrite fold_left_sz. lia. Qed.
Lemma sumsz_nil : sumsz [] = 0.
Proof. reflexivity. Qed.

(* ================================================================== the data span along the fold (C03) *)
Definition mdat_in (sp : N * N) (bs : list tbox) : bool :=
  forallb (fun b => if is MDAT b then inside sp b else true) bs.

Lemma mdat_in_none sp bs : existsb (is MDAT) bs = false -> mdat_in sp bs = true.
Proof.
  unfold mdat_in. induction bs as [|b r IH]; [reflexivity|]. cbn [existsb forallb]. intros H.
  apply orb_false_iff in H. destruct H as [H1 H2]. rewrite H1, IH by exact H2. reflexivity.
Qed.

Lemma is_mdat_filler b : is MDAT b = true -> is_filler b = true.
Proof. intros H. unfold is_filler. rewrite H. reflexivity. Qed.

Lemma media_run_skip b r : is MDAT b = false -> media_run (b :: r) = media_run r.
Proof. intros H. unfold media_run, media_boxes. cbn [drop_until]. rewrite H. reflexivity. Qed.
Lemma mdat_contiguous_skip b r : is MDAT b = false -> mdat_contiguous (b :: r) = mdat_contiguous r.
Proof. intros H. unfold mdat_contiguous, media_boxes. cbn [drop_until]. rewrite H. reflexivity. Qed.
Lemma media_run_first b r : is MDAT b = true ->
  media_run (b :: r) = Some (tb_off b, tb_size b + sumsz (take_while is_filler r)).
Proof.
  intros H. unfold media_run, media_boxes. cbn [drop_until]. rewrite H. cbn [take_while].
  rewrite (is_mdat_filler b H). rewrite fold_left_sz, N.add_0_l, sumsz_cons. reflexivity.
Qed.
Lemma mdat_contiguous_first b r : is MDAT b = true ->
  mdat_contiguous (b :: r) = negb (existsb (is MDAT) (skipn (length (take_while is_filler r)) r)).
Proof.
  intros H. unfold mdat_contiguous, media_boxes. cbn [drop_until]. rewrite H. cbn [take_while].
  rewrite (is_mdat_filler b H). reflexivity.
Qed.

Section Fold.
Variable cfg : config.
Variable inp : input.

Lemma fold_cons s b r : fold_boxes cfg inp s (b :: r) = (s' <- box_step cfg inp s b ;; fold_boxes cfg inp s' r).
Proof. reflexivity. Qed.

Lemma fold_data_inv : forall bs s p e s', chain p bs e -> data_inv s p ->
  fold_boxes cfg inp s bs = Ok s' -> data_inv s' e.
Proof.
  induction bs as [|b r IH]; intros s p e s' Hc Hinv H.
  - cbn in *. injection H as <-. subst e. exact Hinv.
  - cbn [chain] in Hc. destruct Hc as (Ho & H8 & Hs & Hc). rewrite fold_cons in H.
    destruct (box_step cfg inp s b) as [s1| | | |] eqn:E1; try discriminate. cbn [rbind] in H.
    apply (IH s1 (tb_end b) e s' Hc); [|exact H]. apply (box_step_inv _ _ _ _ _ E1). rewrite Ho. exact Hinv.
Qed.

(* closed: the span ended before p; nothing changes it any more and no mdat may follow *)
Lemma fold_data_closed : forall bs s p e s' sp, chain p bs e ->
  st_data s = Some sp -> s_off sp + s_len sp < p ->
  fold_boxes cfg inp s bs = Ok s' ->
  st_data s' = Some sp /\ existsb (is MDAT) bs = false.
Proof.
  induction bs as [|b r IH]; intros s p e s' sp Hc Hd Hlt H.
  - cbn in H. injection H as <-. split; [exact Hd | reflexivity].
  - cbn [chain] in Hc. destruct Hc as (Ho & H8 & Hs & Hc). rewrite fold_cons in H.
    destruct (box_step cfg inp s b) as [s1| | | |] eqn:E1; try discriminate. cbn [rbind] in H.
    assert (Hs1 : st_data s1 = Some sp /\ is MDAT b = false).
    { rewrite box_step_kind in E1. rewrite is_mdat_kind. cbv zeta in E1. unfold set_data, extend in E1. rewrite Hd in E1.
      destruct (N.eqb_spec (s_off sp + s_len sp) (tb_off b)) as [Ee|_]; [lia|].
      destruct (kind_of b); destruct (st_ftyp s); try discriminate.
      all: try (injection E1 as <-; cbn [st_data]; split; [exact Hd || reflexivity | reflexivity]).
      - destruct (MAX_FTYP_SIZE <? _); [discriminate|]. destruct (parse_ftyp _); try discriminate. cbn [rbind] in E1.
        destruct (existsb (bytes_eqb COMPATIBLE_BRAND) _); [|discriminate]. injection E1 as <-. split; reflexivity.
      - destruct (max_metadata_size cfg <? _); [discriminate|]. destruct (moov_check _); try discriminate.
        injection E1 as <-. split; reflexivity. }
    destruct Hs1 as [Hd1 Hm]. unfold tb_end in Hc.
    destruct (IH s1 (tb_off b + tb_size b) e s' sp Hc Hd1 ltac:(lia) H) as [R1 R2].
    split; [exact R1|]. cbn [existsb]. rewrite Hm, R2. reflexivity.
Qed.

(* open: the span ends exactly at p *)
Lemma fold_data_open : forall bs s p e s' sp, chain p bs e ->
  st_data s = Some sp -> s_off sp + s_len sp = p ->
  fold_boxes cfg inp s bs = Ok s' ->
  let fin := (s_off sp, s_len sp + sumsz (take_while is_filler bs)) in
  st_data s' = Some {| s_off := fst fin; s_len := snd fin |} /\
  existsb (is MDAT) (skipn (length (take_while is_filler bs)) bs) = false /\
  mdat_in fin bs = true.
Proof.
  induction bs as [|b r IH]; intros s p e s' sp Hc Hd Heq H fin; subst fin.
  - cbn in H. injection H as <-. cbn [take_while fst snd]. rewrite sumsz_nil, N.add_0_r.
    split; [destruct sp; exact Hd | split; reflexivity].
  - cbn [chain] in Hc. destruct Hc as (Ho & H8 & Hs & Hc). rewrite fold_cons in H.
    destruct (box_step cfg inp s b) as [s1| | | |] eqn:E1; try discriminate. cbn [rbind] in H.
    cbn [take_while]. rewrite is_filler_kind.
    rewrite box_step_kind in E1. cbv zeta in E1. unfold set_data, extend in E1. rewrite Hd in E1.
    destruct (N.eqb_spec (s_off sp + s_len sp) (tb_off b)) as [_|Ee]; [|lia].
    assert (Hfill : forall s1', st_data s1' = Some {| s_off := s_off sp; s_len := s_len sp + tb_size b |} ->
              fold_boxes cfg inp s1' r = Ok s' ->
              st_data s' = Some {| s_off := s_off sp; s_len := s_len sp + sumsz (b :: take_while is_filler r) |} /\
              existsb (is MDAT) (skipn (length (b :: take_while is_filler r)) (b :: r)) = false /\
              mdat_in (s_off sp, s_len sp + sumsz (b :: take_while is_filler r)) (b :: r) = true).
    { intros s1' Hd1 H1. unfold tb_end in Hc.
      destruct (IH s1' (tb_off b + tb_size b) e s' _ Hc Hd1 ltac:(cbn [s_off s_len]; lia) H1) as (R1 & R2 & R3).
      cbn [s_off s_len fst snd] in *. rewrite sumsz_cons, N.add_assoc.
      split; [exact R1|]. split; [exact R2|].
      unfold mdat_in in *. cbn [forallb]. rewrite R3, andb_true_r.
      destruct (is MDAT b); [|reflexivity]. unfold inside, tb_end. cbn [fst snd].
      apply andb_true_intro. split; apply N.leb_le; lia. }
    assert (Hstop : st_data s1 = Some sp -> is MDAT b = false ->
              st_data s' = Some {| s_off := s_off sp; s_len := s_len sp + sumsz [] |} /\
              existsb (is MDAT) (skipn (length (@nil tbox)) (b :: r)) = false /\
              mdat_in (s_off sp, s_len sp + sumsz []) (b :: r) = true).
    { intros Hd1 Hm. unfold tb_end in Hc.
      destruct (fold_data_closed r s1 (tb_off b + tb_size b) e s' sp Hc Hd1 ltac:(lia) H) as [R1 R2].
      rewrite sumsz_nil, N.add_0_r. split; [destruct sp; exact R1|]. cbn [length skipn existsb].
      rewrite Hm, R2. split; [reflexivity|]. apply mdat_in_none. cbn [existsb]. rewrite Hm, R2. reflexivity. }
    cbn [fst snd]. rewrite is_mdat_kind in Hstop.
    destruct (kind_of b); destruct (st_ftyp s); try discriminate.
    all: try (injection E1 as <-; refine (Hfill _ _ H); reflexivity).
    + destruct (MAX_FTYP_SIZE <? _); [discriminate|]. destruct (parse_ftyp _); try discriminate. cbn [rbind] in E1.
      destruct (existsb (bytes_eqb COMPATIBLE_BRAND) _); [|discriminate]. injection E1 as <-. apply Hstop; reflexivity.
    + destruct (max_metadata_size cfg <? _); [discriminate|]. destruct (moov_check _); try discriminate.
      injection E1 as <-. apply Hstop; reflexivity.
Qed.

(* none: no mdat seen yet *)
Lemma fold_data_none : forall bs s p e s', chain p bs e ->
  st_data s = None ->
  fold_boxes cfg inp s bs = Ok s' ->
  st_data s' = match media_run bs with Some (o, l) => Some {| s_off := o; s_len := l |} | None => None end /\
  mdat_contiguous bs = true /\
  match media_run bs with Some sp => mdat_in sp bs = true | None => existsb (is MDAT) bs = false end.
Proof.
  induction bs as [|b r IH]; intros s p e s' Hc Hd H.
  - cbn in H. injection H as <-. cbn. split; [exact Hd | split; reflexivity].
  - cbn [chain] in Hc. destruct Hc as (Ho & H8 & Hs & Hc). rewrite fold_cons in H.
    destruct (box_step cfg inp s b) as [s1| | | |] eqn:E1; try discriminate. cbn [rbind] in H.
    rewrite box_step_kind in E1. cbv zeta in E1. unfold set_data, extend in E1. rewrite Hd in E1.
    assert (Hskip : st_data s1 = None -> is MDAT b = false ->
      st_data s' = match media_run (b :: r) with Some (o, l) => Some {| s_off := o; s_len := l |} | None => None end /\
      mdat_contiguous (b :: r) = true /\
      match media_run (b :: r) with Some sp => mdat_in sp (b :: r) = true | None => existsb (is MDAT) (b :: r) = false end).
    { intros Hd1 Hm. destruct (IH s1 (tb_end b) e s' Hc Hd1 H) as (R1 & R2 & R3).
      rewrite (media_run_skip b r Hm), (mdat_contiguous_skip b r Hm).
      split; [exact R1|]. split; [exact R2|].
      destruct (media_run r) as [sp|].
      - unfold mdat_in in *. cbn [forallb]. rewrite Hm, R3. reflexivity.
      - cbn [existsb]. rewrite Hm, R3. reflexivity. }
    rewrite is_mdat_kind in Hskip.
    destruct (kind_of b) eqn:Ek; destruct (st_ftyp s); try discriminate.
    all: try (injection E1 as <-; apply Hskip; [reflexivity | reflexivity]).
    + destruct (MAX_FTYP_SIZE <? _); [discriminate|]. destruct (parse_ftyp _); try discriminate. cbn [rbind] in E1.
      destruct (existsb (bytes_eqb COMPATIBLE_BRAND) _); [|discriminate]. injection E1 as <-. apply Hskip; reflexivity.
    + (* the first mdat *)
      injection E1 as <-.
      assert (Hm : is MDAT b = true) by (rewrite is_mdat_kind, Ek; reflexivity).
      assert (Hf : is_filler b = true) by (rewrite is_filler_kind, Ek; reflexivity).
      unfold tb_end in Hc.
      match type of H with fold_boxes _ _ ?s1 _ = _ =>
        destruct (fold_data_open r s1 (tb_off b + tb_size b) e s' {| s_off := tb_off b; s_len := tb_size b |} Hc
                    eq_refl ltac:(cbn [s_off s_len]; lia) H) as (R1 & R2 & R3) end.
      cbn [s_off s_len fst snd] in *.
      rewrite (media_run_first b r Hm), (mdat_contiguous_first b r Hm).
      split; [exact R1|]. rewrite R2. split; [reflexivity|].
      unfold mdat_in in *. cbn [forallb]. rewrite R3, andb_true_r, Hm.
      unfold inside, tb_end. cbn [fst snd]. apply andb_true_intro. split; apply N.leb_le; lia.
    + destruct (max_metadata_size cfg <? _); [discriminate|]. destruct (moov_check _); try discriminate.
      injection E1 as <-. apply Hskip; reflexivity.
Qed.

End Fold.

Lemma finish_data s o : finish_p s = Ok o -> st_data s = Some (o_data o).
Proof.
  unfold finish_p. destruct (st_ftyp s) as [fp|]; [|discriminate].
  destruct (st_moov s) as [[kids mo]|]; [|discriminate]. destruct (st_data s) as [d|]; [|discriminate].
  destruct (mo <? s_off d). { intros H. injection H as <-. reflexivity. }
  destruct (with_data_size _ _) as [fh| | | |]; try discriminate. cbn [rbind].
  destruct (with_data_size _ _) as [mh| | | |]; try discriminate. cbn [rbind].
  destruct (add_u64 6 (encoded_len fh) _) as [fl| | | |]; try discriminate. cbn [rbind].
  destruct (add_u64 6 (encoded_len mh) _) as [ml| | | |]; try discriminate. cbn [rbind].
  destruct (add_u64 6 fl ml) as [mdl| | | |]; try discriminate. cbn [rbind].
  destruct (_ && _). { intros H. injection H as <-. reflexivity. }
  destruct (_ && _). { intros H. injection H as <-. reflexivity. }
  destruct (displacement _ _); [|discriminate].
  destruct (each_trak _ _) as [kl| | | |]; try discriminate. cbn [rbind]. intros H. injection H as <-. reflexivity.
Qed.

(* ================================================================== C03 *)
Section C03.
Variable inp : input.
Variable lenient : bool.
Variable cfg : config.
Hypothesis Hlen : ilen inp <= U64MAX.
Hypothesis Hcum : forall t, cumulative_mdat_box_size cfg = Some t -> t <= U32MAX.

Lemma U64MAX'_eq : U64MAX' = U64MAX. Proof. reflexivity. Qed.

Theorem span_is_media_run fuel o :
  mp4_sanitize cfg lenient U64MAX' inp fuel = Ok o ->
  exists bs, tiling (cumulative_mdat_box_size cfg) inp = Some bs /\
    media_run bs = Some (s_off (o_data o), s_len (o_data o)) /\
    s_off (o_data o) + s_len (o_data o) <= ilen inp /\
    forallb (fun b => if is MDAT b then inside (s_off (o_data o), s_len (o_data o)) b else true) bs = true.
Proof.
  intros H.
  assert (Hms : ilen inp <= U64MAX') by (rewrite U64MAX'_eq; exact Hlen).
  assert (Hms64 : U64MAX' <= U64MAX) by (rewrite U64MAX'_eq; lia).
  destruct (tiling (cumulative_mdat_box_size cfg) inp) as [bs|] eqn:Et.
  2:{ pose proof (sanitize_untiled inp lenient U64MAX' cfg Hms Hms64 Hcum fuel Et) as Hn. rewrite H in Hn. discriminate. }
  exists bs. split; [reflexivity|].
  destruct (sanitize_tiled inp lenient U64MAX' cfg Hms Hms64 Hcum fuel bs Et) as [E|[E _]]; [|congruence].
  rewrite H in E. symmetry in E.
  destruct (fold_boxes cfg inp st0 bs) as [s'| | | |] eqn:Ef; try discriminate. cbn [rbind] in E.
  apply finish_data in E.
  pose proof (tile_chain _ _ _ _ _ Et) as Hc.
  destruct (fold_data_none cfg inp bs st0 0 (ilen inp) s' Hc eq_refl Ef) as (R1 & R2 & R3).
  pose proof (fold_data_inv cfg inp bs st0 0 (ilen inp) s' Hc I Ef) as Hinv. unfold data_inv in Hinv.
  rewrite E in R1, Hinv.
  destruct (media_run bs) as [[o' l']|]; [|discriminate]. injection R1 as R1.
  destruct (o_data o) as [oo ol]. cbn [s_off s_len] in *. injection R1 as -> ->.
  split; [reflexivity|]. split; [exact Hinv | exact R3].
Qed.

Theorem truncated_rejected fuel :
  tiling (cumulative_mdat_box_size cfg) inp = None -> is_ok (mp4_sanitize cfg lenient U64MAX' inp fuel) = false.
Proof.
  intros Et. apply sanitize_untiled; [rewrite U64MAX'_eq; exact Hlen | rewrite U64MAX'_eq; lia | exact Hcum | exact Et].
Qed.

Theorem truncated_strict_in_loop_sec fuel :
  tiling (cumulative_mdat_box_size cfg) inp = None ->
  is_ok (fst (run (cursor inp false U64MAX') (loop fuel cfg st0) 0)) = false.
Proof.
  intros Et. rewrite fst_run, loop_run.
  assert (Hms : ilen inp <= U64MAX') by (rewrite U64MAX'_eq; exact Hlen).
  assert (Hms64 : U64MAX' <= U64MAX) by (rewrite U64MAX'_eq; lia).
  pose proof (loop_untiled_strict inp false U64MAX' cfg Hms Hms64 Hcum fuel eq_refl Et) as H.
  destruct (loop_pure inp false U64MAX' fuel cfg st0 0); cbn in *; congruence.
Qed.

End C03.

Lemma truncated_strict_in_loop :
  forall (cfg : config) (inp : input) (fuel : nat),
  ilen inp <= U64MAX ->
  (forall t, cumulative_mdat_box_size cfg = Some t -> t <= U32MAX) ->
  tiling (cumulative_mdat_box_size cfg) inp = None ->
  is_ok (fst (run (cursor inp false U64MAX') (loop fuel cfg st0) 0)) = false.
Proof. intros cfg inp fuel Hl Hc. exact (truncated_strict_in_loop_sec inp cfg Hl Hc fuel). Qed.

