(* mp4san/src/lib.rs : sanitize_async_with_config as a programme over the abstract reader. *)
From Coq Require Import List NArith ZArith Bool Lia.
From Coq.Strings Require Import Byte.
From MS Require Import Base.Bytes Base.Outcome Base.Prog Mp4.Header Mp4.Box Gen.Consts Gen.Kernels.
Import ListNotations.
Open Scope N_scope.

Record config := { max_metadata_size : N; cumulative_mdat_box_size : option N }.
Record span := { s_off : N; s_len : N }.
(* metadata: Some (bytes, number of trailing zero bytes of the padding box) *)
Record out := { o_metadata : option (bytes * N); o_data : span }.

Record st := {
  st_ftyp : option bytes;                 (* payload of the ftyp box *)
  st_moov : option (list node * N);       (* parsed children of the last moov, its start offset *)
  st_data : option span;
}.
Definition st0 : st := {| st_ftyp := None; st_moov := None; st_data := None |}.

(* BoxHeader::read over the stream: 4 + 4 (+ 8) (+ 16) bytes; every read maps EOF to TruncatedBox
   (the caller applies map_eof to the whole future). *)
Definition read_header : prog header :=
  let eof := Some TruncatedBox in
  sz <~ do_read_exact 4 eof ;;
  name <~ do_read_exact 4 eof ;;
  size <~ (if be2n sz =? 0 then Ret (Ok UntilEof)
           else if be2n sz =? 1 then (e <~ do_read_exact 8 eof ;; Ret (Ok (Ext (be2n e))))
           else Ret (Ok (Size (be2n sz)))) ;;
  if bytes_eqb name UUID4 then (u <~ do_read_exact 16 eof ;; Ret (Ok {| htype := Uuid u; hsize := size |}))
  else Ret (Ok {| htype := FourCC name; hsize := size |}).

(* box_data_size()? or, for an until-EOF box, stream_len - stream_position (u64 subtraction: underflow panics) *)
Definition data_size (h : header) : prog N :=
  ods <~ lift (box_data_size h) ;;
  match ods with
  | Some n => Ret (Ok n)
  | None => len <~ do_len ;; pos <~ do_pos ;; if len <? pos then Ret (Panic 2) else Ret (Ok (len - pos))
  end.

(* skip_box *)
Definition skip_box (h : header) : prog N :=
  n <~ data_size h ;;
  _ <~ do_skip n (Some TruncatedBox) ;;
  Ret (Ok n).

(* Mp4Box::read_data *)
Definition read_data (h : header) (max : N) : prog bytes :=
  n <~ data_size h ;;
  if max <? n then Ret (EParse InvalidInput) else
  _ <~ do_alloc n ;;
  do_read_exact n (Some TruncatedBox).

Definition add_u64 (site : N) (a b : N) : res N := if U64MAX <? a + b then Panic site else Ok (a + b).

(* "Try to extend any already accumulated data" for free/skip/meta/meco *)
Definition extend_if_adjacent (d : option span) (start box_size : N) : res (option span) :=
  match d with
  | None => Ok None
  | Some sp =>
      e <- add_u64 4 (s_off sp) (s_len sp) ;;
      if e =? start then l <- add_u64 5 (s_len sp) box_size ;; Ok (Some {| s_off := s_off sp; s_len := l |})
      else Ok d
  end.

Definition is_type (h : header) (t : bytes) : bool := box_type_eqb (htype h) (FourCC t).

Definition step (cfg : config) (s : st) : prog st :=
  start <~ do_pos ;;
  h <~ read_header ;;
  if is_type h t_free || is_type h t_skip then
    n <~ skip_box h ;;
    bs <~ lift (add_u64 3 n (encoded_len h)) ;;
    d <~ lift (extend_if_adjacent (st_data s) start bs) ;;
    Ret (Ok {| st_ftyp := st_ftyp s; st_moov := st_moov s; st_data := d |})
  else if is_type h t_ftyp then
    match st_ftyp s with
    | Some _ => Ret (EParse InvalidBoxLayout)
    | None =>
        payload <~ read_data h MAX_FTYP_SIZE ;;
        '(major, brands) <~ lift (parse_ftyp payload) ;;
        if existsb (bytes_eqb COMPATIBLE_BRAND) brands
        then Ret (Ok {| st_ftyp := Some payload; st_moov := st_moov s; st_data := st_data s |})
        else Ret (EParse (UnsupportedFormat major))
    end
  else match st_ftyp s with
  | None => Ret (EParse InvalidBoxLayout)
  | Some _ =>
    if is_type h t_mdat then
      h' <~ lift (match box_data_size h, cumulative_mdat_box_size cfg with
                  | Ok None, Some t => overwrite_size h t
                  | _, _ => Ok h
                  end) ;;
      n <~ skip_box h' ;;
      bs <~ lift (add_u64 3 n (encoded_len h')) ;;
      match st_data s with
      | Some sp =>
          e <~ lift (add_u64 4 (s_off sp) (s_len sp)) ;;
          if e =? start then
            l <~ lift (add_u64 5 (s_len sp) bs) ;;
            Ret (Ok {| st_ftyp := st_ftyp s; st_moov := st_moov s; st_data := Some {| s_off := s_off sp; s_len := l |} |})
          else Ret (EParse UnsupportedBoxLayout)
      | None => Ret (Ok {| st_ftyp := st_ftyp s; st_moov := st_moov s; st_data := Some {| s_off := start; s_len := bs |} |})
      end
    else if is_type h t_moov then
      payload <~ read_data h (max_metadata_size cfg) ;;
      kids <~ lift (moov_check payload) ;;
      Ret (Ok {| st_ftyp := st_ftyp s; st_moov := Some (kids, start); st_data := st_data s |})
    else if is_type h t_meta || is_type h t_meco then
      n <~ skip_box h ;;
      bs <~ lift (add_u64 3 n (encoded_len h)) ;;
      d <~ lift (extend_if_adjacent (st_data s) start bs) ;;
      Ret (Ok {| st_ftyp := st_ftyp s; st_moov := st_moov s; st_data := d |})
    else
      n <~ skip_box h ;;
      _ <~ lift (add_u64 3 n (encoded_len h)) ;;
      Ret (EParse (UnsupportedBox (match htype h with FourCC t => t | Uuid u => u end)))
  end.

Fixpoint loop (fuel : nat) (cfg : config) (s : st) : prog st :=
  match fuel with
  | O => Ret OutOfFuel
  | S fuel' =>
      e <~ do_fill_empty ;;
      if e then Ret (Ok s) else s' <~ step cfg s ;; loop fuel' cfg s'
  end.

(* ---- after the loop (pure) *)
Definition I32MAX : N := 2147483647.

(* the displacement: Some z with z in [-2^31, 2^31-1], or None = "mdat displaced too far" *)
Definition displacement (data_off metadata_len : N) : option Z :=
  if metadata_len <=? data_off then
    let bwd := data_off - metadata_len in
    if bwd <=? I32MAX + 1 then Some (- Z.of_N bwd)%Z else None   (* i64::try_from(bwd) then i32::try_from(-d): -2^31 is representable *)
  else
    let fwd := metadata_len - data_off in
    if fwd <=? I32MAX then Some (Z.of_N fwd) else None.

Definition shift_entry (w : Z) (d : Z) (v : N) : res N :=
  match checked_add_signed w (Z.of_N v) d with
  | Some r => Ok (Z.to_N r)
  | None => EParse InvalidInput
  end.

Definition finish (s : st) : prog out :=
  match st_ftyp s with
  | None => Ret (EParse (MissingRequiredBox t_ftyp))
  | Some fp =>
  match st_moov s with
  | None => Ret (EParse (MissingRequiredBox t_moov))
  | Some (kids, moov_off) =>
  match st_data s with
  | None => Ret (EParse (MissingRequiredBox t_mdat))
  | Some data =>
    if moov_off <? s_off data then Ret (Ok {| o_metadata := None; o_data := data |}) else
    fh <~ lift (with_data_size (FourCC t_ftyp) (N.of_nat (length fp))) ;;
    let mp_len := N.of_nat (length (put_nodes kids)) in
    mh <~ lift (with_data_size (FourCC t_moov) mp_len) ;;
    flen <~ lift (add_u64 6 (encoded_len fh) (N.of_nat (length fp))) ;;
    mlen <~ lift (add_u64 6 (encoded_len mh) mp_len) ;;
    metadata_len <~ lift (add_u64 6 flen mlen) ;;
    let gap := s_off data - metadata_len in
    if (metadata_len <=? s_off data) && (gap =? 0) then
      _ <~ do_alloc metadata_len ;;
      Ret (Ok {| o_metadata := Some (hdr_put fh ++ fp ++ hdr_put mh ++ put_nodes kids, 0); o_data := data |})
    else if (metadata_len <=? s_off data) && (PAD_HEADER_SIZE <=? gap) && (gap <=? MAX_PAD_SIZE) && (gap <=? metadata_len) then
      _ <~ do_alloc (metadata_len + gap) ;;
      Ret (Ok {| o_metadata := Some (hdr_put fh ++ fp ++ hdr_put mh ++ put_nodes kids
                                       ++ hdr_put (with_u32_data_size (FourCC t_free) (gap - PAD_HEADER_SIZE)),
                                     gap - PAD_HEADER_SIZE);
                 o_data := data |})
    else
      match displacement (s_off data) metadata_len with
      | None => Ret (EParse UnsupportedBoxLayout)
      | Some d =>
          '(kids', _) <~ lift (each_trak kids (shift_table (shift_entry 32 d) (shift_entry 64 d))) ;;
          _ <~ do_alloc metadata_len ;;
          Ret (Ok {| o_metadata := Some (hdr_put fh ++ fp ++ hdr_put mh ++ put_nodes kids', 0); o_data := data |})
      end
  end end end.

(* after the loop: a skip past the end succeeded on a seek-style input => the last box was truncated *)
Definition check_end : prog unit :=
  pos <~ do_pos ;; len <~ do_len ;;
  if len <? pos then Ret (EParse TruncatedBox) else Ret (Ok tt).

Definition sanitize_prog (cfg : config) (fuel : nat) : prog out :=
  s <~ loop fuel cfg st0 ;; _ <~ check_end ;; finish s.

(* entry points over the ideal cursor *)
Definition mp4_sanitize (cfg : config) (lenient : bool) (max_seek : N) (inp : input) (fuel : nat) : res out :=
  fst (run (cursor inp lenient max_seek) (sanitize_prog cfg fuel) 0).
