(* Byte-string lemmas shared by the proofs relating the box-tree model (Mp4/Box.v) to the specification (Mp4/Spec.v):
   slices, "bytes bs occur in p at offset off", type comparison. *)
From Coq Require Import List NArith ZArith Bool Lia Arith.
From Coq.Strings Require Import Byte.
From MS Require Import Base.Bytes Base.Outcome Mp4.Header Mp4.HeaderProofs Mp4.Box Mp4.Spec Mp4.BoxProofsLazy.
Import ListNotations.
Open Scope N_scope.
Arguments N.add : simpl never.
Arguments N.sub : simpl never.
Arguments N.mul : simpl never.
Arguments N.div : simpl never.
Arguments N.modulo : simpl never.
Arguments N.pow : simpl never.
Arguments N.eqb : simpl never.
Arguments N.ltb : simpl never.
Arguments N.leb : simpl never.

(* ------------------------------------------------------------------ lengths *)
Lemma blen_app (a b : bytes) : blen (a ++ b) = blen a + blen b.
Proof. unfold blen. rewrite app_length. lia. Qed.
Lemma blen_nil : blen [] = 0.
Proof. reflexivity. Qed.
Lemma blen_cons x (l : bytes) : blen (x :: l) = 1 + blen l.
Proof. unfold blen. cbn [length]. lia. Qed.
Lemma blen_n2be k n : blen (n2be k n) = N.of_nat k.
Proof. unfold blen. rewrite length_n2be. reflexivity. Qed.
Lemma blen_nat (l : bytes) : N.to_nat (blen l) = length l.
Proof. unfold blen. apply Nat2N.id. Qed.

(* ------------------------------------------------------------------ firstn / skipn *)
Lemma firstn_skipn_firstn {A} (l : list A) a b m : (a + b <= m)%nat ->
  firstn b (skipn a (firstn m l)) = firstn b (skipn a l).
Proof.
  intros H. rewrite skipn_firstn_comm, firstn_firstn. f_equal. lia.
Qed.

Lemma firstn_app_exact {A} (a b : list A) : firstn (length a) (a ++ b) = a.
Proof. apply firstn_app_len. reflexivity. Qed.
Lemma skipn_app_exact {A} (a b : list A) : skipn (length a) (a ++ b) = b.
Proof. apply skipn_app_len. reflexivity. Qed.

(* ------------------------------------------------------------------ slices *)
Lemma slice_nat (p : bytes) off len : slice p off len = firstn (N.to_nat len) (skipn (N.to_nat off) p).
Proof. reflexivity. Qed.

Lemma slice_slice (p : bytes) off len a b : a + b <= len -> slice (slice p off len) a b = slice p (off + a) b.
Proof.
  intros H. unfold slice. rewrite firstn_skipn_firstn by lia. rewrite skipn_add. f_equal. f_equal. lia.
Qed.

Lemma slice_firstn (l : bytes) m a b : a + b <= N.of_nat m -> slice (firstn m l) a b = slice l a b.
Proof. intros H. unfold slice. apply firstn_skipn_firstn. lia. Qed.

Lemma slice_0 (p : bytes) len : slice p 0 len = firstn (N.to_nat len) p.
Proof. reflexivity. Qed.

Lemma slice_all (p : bytes) : slice p 0 (blen p) = p.
Proof. unfold slice. rewrite blen_nat. cbn [skipn N.to_nat]. apply firstn_all. Qed.

Lemma slice_length_le (p : bytes) off len : blen (slice p off len) <= len.
Proof. unfold slice, blen. rewrite firstn_length. lia. Qed.

Lemma slice_app_mid (x y z : bytes) : slice (x ++ y ++ z) (blen x) (blen y) = y.
Proof. unfold slice. rewrite !blen_nat, skipn_app_exact, firstn_app_exact. reflexivity. Qed.

Lemma slice_app_l (x y : bytes) : slice (x ++ y) 0 (blen x) = x.
Proof. unfold slice. rewrite blen_nat. cbn [N.to_nat skipn]. apply firstn_app_exact. Qed.

(* ------------------------------------------------------------------ "bs occurs in p at offset off" *)
Definition occ (p : bytes) (off : N) (bs : bytes) : Prop := slice p off (blen bs) = bs.

Lemma occ_all p : occ p 0 p.
Proof. apply slice_all. Qed.

Lemma occ_app_l p off x y : occ p off (x ++ y) -> occ p off x.
Proof.
  unfold occ. intros H.
  replace off with (off + 0) by lia.
  rewrite <- (slice_slice p off (blen (x ++ y))) by (rewrite blen_app; lia).
  rewrite H. apply slice_app_l.
Qed.

Lemma occ_app_r p off x y : occ p off (x ++ y) -> occ p (off + blen x) y.
Proof.
  unfold occ. intros H.
  rewrite <- (slice_slice p off (blen (x ++ y))) by (rewrite blen_app; lia).
  rewrite H. replace (x ++ y) with (x ++ y ++ []) by (rewrite app_nil_r; reflexivity). apply slice_app_mid.
Qed.

Lemma occ_slice p off bs a b : occ p off bs -> a + b <= blen bs -> slice p (off + a) b = slice bs a b.
Proof. unfold occ. intros H L. rewrite <- (slice_slice p off (blen bs)) by exact L. rewrite H. reflexivity. Qed.

Lemma occ_blen p off bs : occ p off bs -> blen (slice p off (blen bs)) = blen bs.
Proof. unfold occ. intros ->. reflexivity. Qed.

(* ------------------------------------------------------------------ types *)
Definition tyb (t : box_type) : bytes := match t with FourCC n => n | Uuid u => UUID ++ u end.
Definition okty (t : bytes) : Prop := length t = 4%nat /\ t <> UUID.

Lemma beq_bytes_eqb a b : beq a b = bytes_eqb a b.
Proof. reflexivity. Qed.

Lemma ty_beq (T : bytes) : okty T -> forall ty, beq (tyb ty) T = box_type_eqb ty (FourCC T).
Proof.
  intros [L NE] [n|u]; cbn [tyb box_type_eqb]; [reflexivity|].
  rewrite beq_bytes_eqb. apply bytes_eqb_neq. intros E.
  apply (f_equal (@length byte)) in E as E'. rewrite app_length, L in E'. cbn [UUID fourcc length] in E'.
  assert (u = []) by (destruct u; [reflexivity | cbn [length] in E'; lia]). subst u.
  rewrite app_nil_r in E. congruence.
Qed.

Lemma okty_trak : okty t_trak. Proof. split; [reflexivity | discriminate]. Qed.
Lemma okty_mdia : okty t_mdia. Proof. split; [reflexivity | discriminate]. Qed.
Lemma okty_minf : okty t_minf. Proof. split; [reflexivity | discriminate]. Qed.
Lemma okty_stbl : okty t_stbl. Proof. split; [reflexivity | discriminate]. Qed.
Lemma okty_stco : okty t_stco. Proof. split; [reflexivity | discriminate]. Qed.
Lemma okty_co64 : okty t_co64. Proof. split; [reflexivity | discriminate]. Qed.

(* ------------------------------------------------------------------ payload of a node, whatever its parse state *)
Definition payload (n : node) : bytes :=
  match n with
  | Raw _ d => d
  | Cont _ ks => put_nodes ks
  | Tab _ _ c e => [x00; x00; x00; x00] ++ n2be 4 c ++ e
  end.
Lemma put_node_split n : put_node n = hdr_put (node_hdr n) ++ payload n.
Proof. destruct n; reflexivity. Qed.
Definition raw_of (n : node) : node := Raw (node_hdr n) (payload n).
Lemma put_raw_of n : put_node (raw_of n) = put_node n.
Proof. rewrite (put_node_split n). reflexivity. Qed.
Definition is_raw (n : node) : Prop := match n with Raw _ _ => True | _ => False end.
