(* Facts about the MP4 sanitizer programme [sanitize_prog] as a PROGRAMME (its syntax and its operation sequences),
   for C13 (fault propagation, no spurious Io) and C10 (reads confined, allocations bounded, media never inspected). *)
From Coq Require Import List NArith ZArith Bool Lia ZifyBool ZifyNat ZifyN.
From Coq.Strings Require Import Byte.
From MS Require Import Base.Bytes Base.Outcome Base.Prog Base.ProgSpec Base.ProgProofs Mp4.Header Mp4.Box Mp4.San Gen.Consts.
Import ListNotations.
Open Scope N_scope.
Arguments N.add : simpl never.
Arguments N.sub : simpl never.
Arguments N.mul : simpl never.
Arguments N.div : simpl never.
Arguments N.modulo : simpl never.
Arguments N.pow : simpl never.
Arguments N.eqb : simpl never.
Arguments N.ltb : simpl never.
Arguments N.leb : simpl never.
Arguments N.min : simpl never.
Arguments N.max : simpl never.

(* ================================================================================================ *)
Notation TB := (eq TruncatedBox).

(* C13: every I/O site of the sanitizer propagates its error; the map_eof sites are exactly the reads of the box
   header, the payload reads and the skips (all with TruncatedBox); fill_buf, stream_position and stream_len are
   plain `?` sites. *)
Lemma propagating_read_header : propagating TB read_header.
Proof. unfold read_header. propagating_walk. Qed.

Lemma propagating_data_size h : propagating TB (data_size h).
Proof. unfold data_size. propagating_walk. Qed.

Lemma propagating_skip_box h : propagating TB (skip_box h).
Proof. unfold skip_box. propagating_walk; apply propagating_data_size. Qed.

Lemma propagating_read_data h mx : propagating TB (read_data h mx).
Proof. unfold read_data. propagating_walk; apply propagating_data_size. Qed.

Lemma propagating_step cfg s : propagating TB (step cfg s).
Proof.
  unfold step.
  repeat first
    [ apply propagating_read_header | apply propagating_skip_box | apply propagating_read_data
    | progress propagating_walk ].
Qed.

Lemma propagating_loop cfg : forall fuel s, propagating TB (loop fuel cfg s).
Proof.
  induction fuel as [|fuel IH]; intros s; cbn [loop]; [constructor|].
  propagating_walk; first [apply propagating_step | apply IH].
Qed.

Lemma propagating_check_end : propagating TB check_end.
Proof. unfold check_end. propagating_walk. Qed.

Lemma propagating_finish s : propagating TB (finish s).
Proof. unfold finish. propagating_walk. Qed.

Theorem propagating_sanitize cfg fuel : propagating TB (sanitize_prog cfg fuel).
Proof.
  unfold sanitize_prog.
  propagating_walk; first [apply propagating_loop | apply propagating_check_end | apply propagating_finish].
Qed.

(* ================================================================================================ *)
(* The sanitizer obeys the monitor of Mp4/TraceSpec.v (C10 trace facts, C13 no spurious Io). *)
From MS Require Import Mp4.TraceSpec Mp4.HeaderProofs Mp4.BoxProofsLazy.

(* ---- pure code never produces an Io error *)
Definition no_io {A} (r : res A) : Prop := forall e, r <> EIo e.

Lemma no_io_rbind {A B} (r : res A) (f : A -> res B) : no_io r -> (forall a, no_io (f a)) -> no_io (rbind r f).
Proof. intros Hr Hf. destruct r; cbn [rbind]; try (intros e' H; discriminate H). - apply Hf. - intros e' H. now apply (Hr e). Qed.

Ltac no_io_walk :=
  repeat first
    [ match goal with
      | |- no_io (Ok _) => intros ? ?; discriminate
      | |- no_io (EParse _) => intros ? ?; discriminate
      | |- no_io (Panic _) => intros ? ?; discriminate
      | |- no_io OutOfFuel => intros ? ?; discriminate
      | |- no_io (rbind _ _) => apply no_io_rbind; [|intros]
      | |- no_io (if ?b then _ else _) => destruct b
      | |- no_io (match ?x with _ => _ end) => destruct x
      | |- no_io (let _ := _ in _) => cbv zeta
      end
    | assumption ].

Lemma no_io_box_data_size h : no_io (box_data_size h).
Proof. unfold box_data_size. no_io_walk. Qed.
Lemma no_io_add_u64 s a b : no_io (add_u64 s a b).
Proof. unfold add_u64. no_io_walk. Qed.
Lemma no_io_extend d a b : no_io (extend_if_adjacent d a b).
Proof. unfold extend_if_adjacent. no_io_walk; apply no_io_add_u64. Qed.
Lemma no_io_overwrite_size h t : no_io (overwrite_size h t).
Proof. unfold overwrite_size. no_io_walk. Qed.
Lemma no_io_with_data_size t n : no_io (with_data_size t n).
Proof. unfold with_data_size. no_io_walk. Qed.
Lemma no_io_parse_ftyp p : no_io (parse_ftyp p).
Proof. unfold parse_ftyp. no_io_walk. Qed.

Lemma no_io_parse_boxes : forall fuel buf, no_io (parse_boxes fuel buf).
Proof.
  induction fuel as [|fuel IH]; intros buf; destruct buf as [|b buf]; cbn [parse_boxes]; no_io_walk;
    first [apply no_io_box_data_size | apply IH].
Qed.
Lemma no_io_force_cont n : no_io (force_cont n).
Proof. unfold force_cont. no_io_walk. apply no_io_parse_boxes. Qed.
Lemma no_io_parse_table w d : no_io (parse_table w d).
Proof. unfold parse_table. no_io_walk. Qed.
Lemma no_io_force_table w n : no_io (force_table w n).
Proof. unfold force_table. no_io_walk. apply no_io_parse_table. Qed.
Lemma no_io_update_first {A} t (f : node -> res (node * A)) : (forall n, no_io (f n)) -> forall kids, no_io (update_first t kids f).
Proof. intros Hf. induction kids as [|k r IH]; cbn [update_first]; no_io_walk; first [apply Hf | apply IH]. Qed.
Lemma no_io_with_one {A} t kids (f : node -> res (node * A)) : (forall n, no_io (f n)) -> no_io (with_one t kids f).
Proof. intros Hf. unfold with_one. no_io_walk. now apply no_io_update_first. Qed.
Lemma no_io_in_child {A} t kids (f : list node -> res (list node * A)) : (forall k, no_io (f k)) -> no_io (in_child t kids f).
Proof. intros Hf. unfold in_child. apply no_io_with_one. intros n. no_io_walk; first [apply no_io_force_cont | apply Hf]. Qed.
Lemma no_io_stbl_co {A} kids (g : node -> res (node * A)) : (forall n, no_io (g n)) -> no_io (stbl_co kids g).
Proof.
  intros Hg. unfold stbl_co. no_io_walk; apply no_io_with_one; intros n; no_io_walk; first [apply no_io_force_table | apply Hg].
Qed.
Lemma no_io_trak_co {A} kids (g : node -> res (node * A)) : (forall n, no_io (g n)) -> no_io (trak_co kids g).
Proof.
  intros Hg. unfold trak_co. apply no_io_in_child. intros k1. apply no_io_in_child. intros k2. apply no_io_in_child.
  intros k3. now apply no_io_stbl_co.
Qed.
Lemma no_io_each_trak {A} (g : node -> res (node * A)) : (forall n, no_io (g n)) -> forall kids, no_io (each_trak kids g).
Proof.
  intros Hg. induction kids as [|k r IH]; cbn [each_trak]; no_io_walk;
    first [apply no_io_force_cont | now apply no_io_trak_co | apply IH].
Qed.
Lemma no_io_tab_count n : no_io (tab_count n).
Proof. unfold tab_count. no_io_walk. Qed.
Lemma no_io_sum_u32 : forall l acc, no_io (sum_u32 l acc).
Proof. induction l as [|c r IH]; intros acc; cbn [sum_u32]; no_io_walk; apply IH. Qed.
Lemma no_io_moov_check p : no_io (moov_check p).
Proof.
  unfold moov_check, parse_moov. no_io_walk;
    first [apply no_io_parse_boxes | apply no_io_each_trak; apply no_io_tab_count | apply no_io_sum_u32].
Qed.
Lemma no_io_shift_entry w d v : no_io (shift_entry w d v).
Proof. unfold shift_entry. no_io_walk. Qed.
Lemma no_io_map_entries w f : (forall v, no_io (f v)) -> forall fuel e, no_io (map_entries fuel w f e).
Proof. intros Hf. induction fuel as [|fuel IH]; intros e; cbn [map_entries]; no_io_walk; first [apply Hf | apply IH]. Qed.
Lemma no_io_shift_table f g n : (forall v, no_io (f v)) -> (forall v, no_io (g v)) -> no_io (shift_table f g n).
Proof.
  intros Hf Hg. unfold shift_table. destruct n; no_io_walk.
  apply no_io_map_entries. intros v. destruct (width =? 4); auto.
Qed.

(* ---- the standard shape of a postcondition: Qok on success; an Io error only as the answer of the reader *)
Definition stdQ {A} (Qok : mstate -> A -> Prop) : mstate -> res A -> Prop :=
  fun m r => match r with Ok a => Qok m a | _ => io_only_from_reader m r end.

Notation OB B F := (obeys exact_reads (mp4_mstep B F)).

Lemma ob_bind {A C} B F (p : prog A) (f : A -> prog C) (Q2 : mstate -> C -> Prop) m :
  OB B F (stdQ (fun m' a => OB B F (stdQ Q2) m' (f a))) m p -> OB B F (stdQ Q2) m (pbind p f).
Proof.
  intros H. apply obeys_bind. eapply obeys_weaken; [|exact H]. intros m' r. destruct r; cbn [stdQ bindQ]; auto.
Qed.

Lemma ob_lift {A} B F m (r : res A) (Qok : mstate -> A -> Prop) :
  no_io r -> (forall a, r = Ok a -> Qok m a) -> OB B F (stdQ Qok) m (lift r).
Proof.
  intros Hn H. unfold lift. cbn [obeys]. destruct r; cbn [stdQ io_only_from_reader]; auto. exfalso. now apply (Hn e).
Qed.

Lemma ob_ret_ok {A} B F m (a : A) (Qok : mstate -> A -> Prop) : Qok m a -> OB B F (stdQ Qok) m (Ret (Ok a)).
Proof. intros H. exact H. Qed.
Lemma ob_ret_parse {A} B F m e (Qok : mstate -> A -> Prop) : OB B F (stdQ Qok) m (Ret (EParse e)).
Proof. exact Logic.I. Qed.
Lemma ob_ret_panic {A} B F m e (Qok : mstate -> A -> Prop) : OB B F (stdQ Qok) m (Ret (Panic e)).
Proof. exact Logic.I. Qed.
Lemma ob_ret_fuel {A} B F m (Qok : mstate -> A -> Prop) : OB B F (stdQ Qok) m (Ret OutOfFuel).
Proof. exact Logic.I. Qed.

(* the error answer of a site: Io e, or TruncatedBox at a map_eof site *)
Lemma io_err_plain {A} (Qok : mstate -> A -> Prop) B F o e : plain_site o -> OB B F (stdQ Qok) (MErr o e) (io_err None e).
Proof. intros Hp. unfold io_err. destruct e; cbn [obeys stdQ io_only_from_reader]; exists o; split; auto. Qed.
Lemma io_err_eof {A} (Qok : mstate -> A -> Prop) B F o e pe : OB B F (stdQ Qok) (MErr o e) (io_err (Some pe) e).
Proof.
  unfold io_err. destruct e; cbn [obeys stdQ io_only_from_reader]; try exact Logic.I; exists o; split; auto; discriminate.
Qed.

(* ---- the wrappers, per monitor state *)
Lemma ob_fill {B F} (Qok : mstate -> bool -> Prop) :
  Qok (MEnd 0) true -> Qok MIter false -> OB B F (stdQ Qok) MHead do_fill_empty.
Proof.
  intros H1 H2. unfold do_fill_empty. cbn [obeys]. intros a _. cbn [mp4_mstep].
  destruct a as [b|l| |n|e]; cbn [on_bool]; eexists; (split; [reflexivity|]); try exact Logic.I.
  - destruct b; [exact H1 | exact H2].
  - apply io_err_plain. now left.
Qed.

Lemma ob_pos_iter {B F} (Qok : mstate -> N -> Prop) :
  (forall start, Qok (MHdr start 0) start) -> OB B F (stdQ Qok) MIter do_pos.
Proof.
  intros H. unfold do_pos. cbn [obeys]. intros a _. cbn [mp4_mstep].
  destruct a as [b|l| |n|e]; cbn [on_num]; eexists; (split; [reflexivity|]); try exact Logic.I.
  - apply H.
  - apply io_err_plain. right. now left.
Qed.
Lemma ob_pos_lenq {B F} (Qok : mstate -> N -> Prop) :
  (forall p, Qok MBody p) -> OB B F (stdQ Qok) MLenQ do_pos.
Proof.
  intros H. unfold do_pos. cbn [obeys]. intros a _. cbn [mp4_mstep].
  destruct a as [b|l| |n|e]; cbn [on_num]; eexists; (split; [reflexivity|]); try exact Logic.I.
  - apply H.
  - apply io_err_plain. right. now left.
Qed.
Lemma ob_pos_end {B F} (Qok : mstate -> N -> Prop) :
  (forall p, Qok (MEnd 1) p) -> OB B F (stdQ Qok) (MEnd 0) do_pos.
Proof.
  intros H. unfold do_pos. cbn [obeys]. intros a _. change (mp4_mstep B F (MEnd 0) OPos a) with (on_num OPos a (fun _ => MEnd 1)).
  destruct a as [b|l| |n|e]; cbn [on_num]; eexists; (split; [reflexivity|]); try exact Logic.I.
  - apply H.
  - apply io_err_plain. right. now left.
Qed.
Lemma ob_len_end {B F} (Qok : mstate -> N -> Prop) :
  (forall n, Qok (MEnd 2) n) -> OB B F (stdQ Qok) (MEnd 1) do_len.
Proof.
  intros H. unfold do_len. cbn [obeys]. intros a _. change (mp4_mstep B F (MEnd 1) OLen a) with (on_num OLen a (fun _ => MEnd 2)).
  destruct a as [b|l| |n|e]; cbn [on_num]; eexists; (split; [reflexivity|]); try exact Logic.I.
  - apply H.
  - apply io_err_plain. right. now right.
Qed.

(* a state in which the header is complete enough for the payload to be dealt with *)
Definition body_ready (m : mstate) : Prop := exists start got, m = MHdr start got /\ 8 <= got.

Lemma mstep_body_ready B F m o a : body_ready m -> (forall n, o <> OReadExact n) -> mp4_mstep B F m o a = body_step B false o a.
Proof.
  intros (start & got & -> & Hg) Ho. cbn [mp4_mstep].
  destruct o; try (destruct (N.leb_spec 8 got); [reflexivity | lia]). now elim (Ho n).
Qed.

Lemma ob_len_hdr {B F} m (Qok : mstate -> N -> Prop) :
  body_ready m -> (forall n, Qok MLenQ n) -> OB B F (stdQ Qok) m do_len.
Proof.
  intros Hb H. unfold do_len. cbn [obeys]. intros a _. rewrite mstep_body_ready by (auto; discriminate). cbn [body_step].
  destruct a as [b|l| |n|e]; cbn [on_num]; eexists; (split; [reflexivity|]); try exact Logic.I.
  - apply H.
  - apply io_err_plain. right. now right.
Qed.
Lemma ob_skip_hdr {B F} m n (Qok : mstate -> unit -> Prop) :
  body_ready m -> Qok MHead tt -> OB B F (stdQ Qok) m (do_skip n (Some TruncatedBox)).
Proof.
  intros Hb H. unfold do_skip. cbn [obeys]. intros a _. rewrite mstep_body_ready by (auto; discriminate). cbn [body_step].
  destruct a as [b|l| |k|e]; cbn [on_unit]; eexists; (split; [reflexivity|]); try exact Logic.I.
  - exact H.
  - apply io_err_eof.
Qed.
Lemma ob_skip_body {B F} n (Qok : mstate -> unit -> Prop) :
  Qok MHead tt -> OB B F (stdQ Qok) MBody (do_skip n (Some TruncatedBox)).
Proof.
  intros H. unfold do_skip. cbn [obeys]. intros a _. cbn [mp4_mstep body_step].
  destruct a as [b|l| |k|e]; cbn [on_unit]; eexists; (split; [reflexivity|]); try exact Logic.I.
  - exact H.
  - apply io_err_eof.
Qed.
Lemma ob_alloc_hdr {B F} m n (Qok : mstate -> unit -> Prop) :
  body_ready m -> n <= B -> Qok (MAlloc n) tt -> OB B F (stdQ Qok) m (do_alloc n).
Proof.
  intros Hb Hn H. unfold do_alloc. cbn [obeys]. intros a _. rewrite mstep_body_ready by (auto; discriminate). cbn [body_step].
  destruct (N.leb_spec n B); [|lia]. eexists; split; [reflexivity | exact H].
Qed.
Lemma ob_alloc_body {B F} n (Qok : mstate -> unit -> Prop) :
  n <= B -> Qok (MAlloc n) tt -> OB B F (stdQ Qok) MBody (do_alloc n).
Proof.
  intros Hn H. unfold do_alloc. cbn [obeys]. intros a _. cbn [mp4_mstep body_step].
  destruct (N.leb_spec n B); [|lia]. eexists; split; [reflexivity | exact H].
Qed.
Lemma ob_alloc_end {B F} n (Qok : mstate -> unit -> Prop) :
  n <= F -> Qok MDone tt -> OB B F (stdQ Qok) (MEnd 2) (do_alloc n).
Proof.
  intros Hn H. unfold do_alloc. cbn [obeys]. intros a _. exists MDone. split; [|exact H].
  cbn [mp4_mstep]. destruct (N.leb_spec n F); [reflexivity | lia].
Qed.

Lemma ob_read_hdr {B F} start got n (Qok : mstate -> bytes -> Prop) :
  hdr_read_ok got n = true ->
  (forall l, N.of_nat (length l) = n -> Qok (MHdr start (got + n)) l) ->
  OB B F (stdQ Qok) (MHdr start got) (do_read_exact n (Some TruncatedBox)).
Proof.
  intros Hok H. unfold do_read_exact. cbn [obeys]. intros a Ha. cbn [mp4_mstep]. rewrite Hok.
  destruct a as [b|l| |k|e]; cbn [on_bytes]; eexists; (split; [reflexivity|]); try exact Logic.I.
  - apply H. exact Ha.
  - apply io_err_eof.
Qed.
Lemma ob_read_alloc {B F} n (Qok : mstate -> bytes -> Prop) :
  (forall l, N.of_nat (length l) = n -> Qok MHead l) ->
  OB B F (stdQ Qok) (MAlloc n) (do_read_exact n (Some TruncatedBox)).
Proof.
  intros H. unfold do_read_exact. cbn [obeys]. intros a Ha. cbn [mp4_mstep]. rewrite N.eqb_refl.
  destruct a as [b|l| |k|e]; cbn [on_bytes]; eexists; (split; [reflexivity|]); try exact Logic.I.
  - apply H. exact Ha.
  - apply io_err_eof.
Qed.

(* ---- the components of the sanitizer *)
Ltac ob_pure := apply ob_bind; apply ob_lift;
  [ first [ apply no_io_box_data_size | apply no_io_add_u64 | apply no_io_extend | apply no_io_parse_ftyp
          | apply no_io_moov_check | apply no_io_with_data_size | apply no_io_overwrite_size ]
  | intros ? _; cbv beta ].

Lemma ob_read_header {B F} start (Qok : mstate -> header -> Prop) :
  (forall h m, body_ready m -> Qok m h) -> OB B F (stdQ Qok) (MHdr start 0) read_header.
Proof.
  intros H. unfold read_header.
  assert (Hfin : forall got size name, 8 <= got -> (got = 8 \/ got = 16) ->
            OB B F (stdQ Qok) (MHdr start got)
               (if bytes_eqb name UUID4
                then u <~ do_read_exact 16 (Some TruncatedBox);; Ret (Ok {| htype := Uuid u; hsize := size |})
                else Ret (Ok {| htype := FourCC name; hsize := size |}))).
  { intros got size name Hg Hgot. destruct (bytes_eqb name UUID4).
    - apply ob_bind. apply ob_read_hdr; [destruct Hgot as [-> | ->]; reflexivity|]. intros u _. cbv beta.
      apply ob_ret_ok. apply H. exists start, (got + 16). split; [reflexivity | lia].
    - apply ob_ret_ok. apply H. exists start, got. split; [reflexivity | lia]. }
  apply ob_bind. apply ob_read_hdr; [reflexivity|]. intros sz _. cbv beta.
  apply ob_bind. apply ob_read_hdr; [reflexivity|]. intros name _. cbv beta.
  apply ob_bind. destruct (be2n sz =? 0).
  { apply ob_ret_ok. apply Hfin; [lia | left; lia]. }
  destruct (be2n sz =? 1).
  - apply ob_bind. apply ob_read_hdr; [reflexivity|]. intros e _. cbv beta. apply ob_ret_ok.
    apply Hfin; [lia | right; lia].
  - apply ob_ret_ok. apply Hfin; [lia | left; lia].
Qed.

Lemma ob_data_size {B F} m h (Qok : mstate -> N -> Prop) :
  body_ready m -> (forall n, Qok m n) -> (forall n, Qok MBody n) -> OB B F (stdQ Qok) m (data_size h).
Proof.
  intros Hb H1 H2. unfold data_size. ob_pure. destruct a as [n|].
  - apply ob_ret_ok. apply H1.
  - apply ob_bind. apply ob_len_hdr; [exact Hb|]. intros len. cbv beta. apply ob_bind. apply ob_pos_lenq. intros pos. cbv beta.
    destruct (len <? pos); [apply ob_ret_panic | apply ob_ret_ok; apply H2].
Qed.

Lemma ob_skip_box {B F} m h (Qok : mstate -> N -> Prop) :
  body_ready m -> (forall n, Qok MHead n) -> OB B F (stdQ Qok) m (skip_box h).
Proof.
  intros Hb H. unfold skip_box. apply ob_bind. apply ob_data_size; [exact Hb| |]; intros n; cbv beta.
  - apply ob_bind. apply ob_skip_hdr; [exact Hb|]. apply ob_ret_ok. apply H.
  - apply ob_bind. apply ob_skip_body. apply ob_ret_ok. apply H.
Qed.

Lemma ob_read_data {B F} m h mx (Qok : mstate -> bytes -> Prop) :
  body_ready m -> mx <= B -> (forall l, N.of_nat (length l) <= mx -> Qok MHead l) -> OB B F (stdQ Qok) m (read_data h mx).
Proof.
  intros Hb Hmx H. unfold read_data. apply ob_bind. apply ob_data_size; [exact Hb| |]; intros n; cbv beta.
  - destruct (N.ltb_spec mx n); [apply ob_ret_parse|]. apply ob_bind. apply ob_alloc_hdr; [exact Hb | lia |].
    apply ob_read_alloc. intros l Hl. apply H. lia.
  - destruct (N.ltb_spec mx n); [apply ob_ret_parse|]. apply ob_bind. apply ob_alloc_body; [lia |].
    apply ob_read_alloc. intros l Hl. apply H. lia.
Qed.

(* what the loop keeps of the boxes it has read into memory is bounded *)
Definition st_ok (cfg : config) (s : st) : Prop :=
  (forall fp, st_ftyp s = Some fp -> N.of_nat (length fp) <= MAX_FTYP_SIZE) /\
  (forall kids off, st_moov s = Some (kids, off) -> N.of_nat (length (put_nodes kids)) <= max_metadata_size cfg).

Lemma st_ok_st0 cfg : st_ok cfg st0.
Proof. split; cbn; intros; discriminate. Qed.
Lemma st_ok_same cfg s s' : st_ftyp s' = st_ftyp s -> st_moov s' = st_moov s -> st_ok cfg s -> st_ok cfg s'.
Proof. intros E1 E2 (H1 & H2). split; [rewrite E1; exact H1 | rewrite E2; exact H2]. Qed.

Definition bound (cfg : config) : N := N.max (max_metadata_size cfg) MAX_FTYP_SIZE.
Definition fbound (cfg : config) : N := 2 * (max_metadata_size cfg + MAX_FTYP_SIZE + 64).

Lemma no_io_mdat_hdr cfg h :
  no_io (match box_data_size h, cumulative_mdat_box_size cfg with
         | Ok None, Some t => overwrite_size h t
         | _, _ => Ok h
         end).
Proof. no_io_walk; apply no_io_overwrite_size. Qed.

Lemma ob_step cfg s : st_ok cfg s ->
  OB (bound cfg) (fbound cfg) (stdQ (fun m s' => m = MHead /\ st_ok cfg s')) MIter (step cfg s).
Proof.
  intros Hs. unfold step.
  apply ob_bind. apply ob_pos_iter. intros start. cbv beta.
  apply ob_bind. apply ob_read_header. intros h m Hb. cbv beta.
  assert (Hfiller :
    OB (bound cfg) (fbound cfg) (stdQ (fun m s' => m = MHead /\ st_ok cfg s')) m
       (n <~ skip_box h;; bs <~ lift (add_u64 3 n (encoded_len h));; d <~ lift (extend_if_adjacent (st_data s) start bs);;
        Ret (Ok {| st_ftyp := st_ftyp s; st_moov := st_moov s; st_data := d |}))).
  { apply ob_bind. apply ob_skip_box; [exact Hb|]. intros n. cbv beta. ob_pure. ob_pure.
    apply ob_ret_ok. split; [reflexivity | apply (st_ok_same cfg s); [cbn [st_ftyp]; congruence | reflexivity | exact Hs]]. }
  destruct (is_type h t_free || is_type h t_skip); [exact Hfiller|].
  destruct (is_type h t_ftyp).
  { destruct (st_ftyp s) as [fp|] eqn:Ef; [apply ob_ret_parse|].
    apply ob_bind. apply ob_read_data; [exact Hb | unfold bound; lia |]. intros payload Hp. cbv beta.
    ob_pure. destruct a as [major brands].
    destruct (existsb (bytes_eqb COMPATIBLE_BRAND) brands); [|apply ob_ret_parse].
    apply ob_ret_ok. split; [reflexivity|]. destruct Hs as (Hs1 & Hs2). split; cbn [st_ftyp st_moov].
    - intros fp [= <-]. exact Hp.
    - exact Hs2. }
  destruct (st_ftyp s) as [fp|] eqn:Ef; [|apply ob_ret_parse].
  destruct (is_type h t_mdat).
  { apply ob_bind. apply ob_lift; [apply no_io_mdat_hdr|]. intros h' _. cbv beta.
    apply ob_bind. apply ob_skip_box; [exact Hb|]. intros n. cbv beta. ob_pure.
    destruct (st_data s) as [sp|].
    - ob_pure. destruct (a0 =? start); [|apply ob_ret_parse]. ob_pure.
      apply ob_ret_ok. split; [reflexivity | apply (st_ok_same cfg s); [cbn [st_ftyp]; congruence | reflexivity | exact Hs]].
    - apply ob_ret_ok. split; [reflexivity | apply (st_ok_same cfg s); [cbn [st_ftyp]; congruence | reflexivity | exact Hs]]. }
  destruct (is_type h t_moov).
  { apply ob_bind. apply ob_read_data; [exact Hb | unfold bound; lia |]. intros payload Hp. cbv beta.
    apply ob_bind. apply ob_lift; [apply no_io_moov_check|]. intros kids Hk. cbv beta.
    apply ob_ret_ok. split; [reflexivity|]. destruct Hs as (Hs1 & Hs2). split; cbn [st_ftyp st_moov].
    - intros fp0 [= <-]. apply Hs1. exact Ef.
    - intros kids' off [= <- _]. rewrite (moov_check_put _ _ Hk). exact Hp. }
  destruct (is_type h t_meta || is_type h t_meco); [exact Hfiller|].
  apply ob_bind. apply ob_skip_box; [exact Hb|]. intros n. cbv beta. ob_pure. apply ob_ret_parse.
Qed.

Lemma ob_loop cfg : forall fuel s, st_ok cfg s ->
  OB (bound cfg) (fbound cfg) (stdQ (fun m s' => m = MEnd 0 /\ st_ok cfg s')) MHead (loop fuel cfg s).
Proof.
  induction fuel as [|fuel IH]; intros s Hs; cbn [loop]; [apply ob_ret_fuel|].
  apply ob_bind. apply ob_fill; cbv beta.
  - apply ob_ret_ok. split; [reflexivity | exact Hs].
  - apply ob_bind. eapply obeys_weaken; [|apply ob_step; exact Hs].
    intros m r. destruct r; cbn [stdQ]; auto. intros (-> & Hs'). now apply IH.
Qed.

Lemma ob_check_end {B F} : OB B F (stdQ (fun m _ => m = MEnd 2)) (MEnd 0) check_end.
Proof.
  unfold check_end. apply ob_bind. apply ob_pos_end. intros pos. cbv beta. apply ob_bind. apply ob_len_end. intros len. cbv beta.
  destruct (len <? pos); [apply ob_ret_parse | apply ob_ret_ok; reflexivity].
Qed.

(* ---- the epilogue: the returned metadata (padding included) is bounded *)
Definition md_bounded (cfg : config) (o : out) : Prop :=
  match o_metadata o with
  | Some (md, z) => N.of_nat (length md) + z <= 2 * (max_metadata_size cfg + MAX_FTYP_SIZE + 64)
  | None => True
  end.

Lemma hdr_put_fourcc_len t sz : length t = 4%nat -> (length (hdr_put {| htype := FourCC t; hsize := sz |}) <= 16)%nat.
Proof.
  intros Ht. unfold hdr_put. cbn [htype hsize]. rewrite !app_length, Ht.
  destruct sz; rewrite ?length_n2be; cbn [length]; lia.
Qed.
Lemma encoded_len_fourcc t sz : encoded_len {| htype := FourCC t; hsize := sz |} <= 16.
Proof. unfold encoded_len. cbn [htype hsize]. destruct sz; lia. Qed.
Lemma with_u32_data_size_fourcc t n : exists sz, with_u32_data_size (FourCC t) n = {| htype := FourCC t; hsize := sz |}.
Proof. unfold with_u32_data_size. destruct (_ <=? _); eexists; reflexivity. Qed.
Lemma with_data_size_fourcc t n h : with_data_size (FourCC t) n = Ok h -> exists sz, h = {| htype := FourCC t; hsize := sz |}.
Proof.
  unfold with_data_size. destruct (n <=? U32MAX).
  - intros [= <-]. apply with_u32_data_size_fourcc.
  - destruct (_ <=? U64MAX); [|discriminate]. intros [= <-]. eexists; reflexivity.
Qed.
Lemma add_u64_inv site a b x : add_u64 site a b = Ok x -> x = a + b.
Proof. unfold add_u64. destruct (_ <? _); [discriminate|]. now intros [= <-]. Qed.

Lemma ob_finish cfg s : st_ok cfg s ->
  OB (bound cfg) (fbound cfg) (stdQ (fun _ o => md_bounded cfg o)) (MEnd 2) (finish s).
Proof.
  intros (Hs1 & Hs2). unfold finish.
  destruct (st_ftyp s) as [fp|] eqn:Ef; [|apply ob_ret_parse].
  destruct (st_moov s) as [[kids moov_off]|] eqn:Em; [|apply ob_ret_parse].
  destruct (st_data s) as [data|]; [|apply ob_ret_parse].
  specialize (Hs1 fp eq_refl). specialize (Hs2 kids moov_off eq_refl).
  destruct (moov_off <? s_off data); [apply ob_ret_ok; exact Logic.I|].
  apply ob_bind. apply ob_lift; [apply no_io_with_data_size|]. intros fh Hfh. cbv beta zeta.
  apply ob_bind. apply ob_lift; [apply no_io_with_data_size|]. intros mh Hmh. cbv beta.
  apply ob_bind. apply ob_lift; [apply no_io_add_u64|]. intros flen Hflen. cbv beta.
  apply ob_bind. apply ob_lift; [apply no_io_add_u64|]. intros mlen Hmlen. cbv beta.
  apply ob_bind. apply ob_lift; [apply no_io_add_u64|]. intros mdl Hmdl. cbv beta.
  apply add_u64_inv in Hflen, Hmlen, Hmdl.
  destruct (with_data_size_fourcc _ _ _ Hfh) as (fsz & ->). destruct (with_data_size_fourcc _ _ _ Hmh) as (msz & ->).
  pose proof (hdr_put_fourcc_len t_ftyp fsz eq_refl) as Lf. pose proof (hdr_put_fourcc_len t_moov msz eq_refl) as Lm.
  pose proof (encoded_len_fourcc t_ftyp fsz) as Ef'. pose proof (encoded_len_fourcc t_moov msz) as Em'.
  assert (Hmdl' : mdl <= max_metadata_size cfg + MAX_FTYP_SIZE + 32) by lia.
  match goal with |- context [if ?c then _ else _] => destruct c end.
  { apply ob_bind. apply ob_alloc_end; [unfold fbound; lia|]. apply ob_ret_ok. unfold md_bounded. cbn [o_metadata].
    rewrite !app_length. lia. }
  match goal with |- context [if ?c then _ else _] => destruct c eqn:Ec end.
  { assert (Hgap : s_off data - mdl <= mdl) by lia.
    apply ob_bind. apply ob_alloc_end; [unfold fbound; lia|]. apply ob_ret_ok. unfold md_bounded. cbn [o_metadata].
    destruct (with_u32_data_size_fourcc t_free (s_off data - mdl - PAD_HEADER_SIZE)) as (psz & ->).
    pose proof (hdr_put_fourcc_len t_free psz eq_refl) as Lp.
    rewrite !app_length. unfold PAD_HEADER_SIZE in *. lia. }
  destruct (displacement (s_off data) mdl) as [d|]; [|apply ob_ret_parse].
  apply ob_bind. apply ob_lift.
  { apply no_io_each_trak. intros n. apply no_io_shift_table; intros v; apply no_io_shift_entry. }
  intros [kids' u] Hk. cbv beta.
  apply ob_bind. apply ob_alloc_end; [unfold fbound; lia|]. apply ob_ret_ok. unfold md_bounded. cbn [o_metadata].
  pose proof (each_trak_shift_length _ _ _ _ _ Hk) as Lk.
  rewrite !app_length. lia.
Qed.

Theorem ob_sanitize cfg fuel :
  OB (bound cfg) (fbound cfg) (stdQ (fun _ o => md_bounded cfg o)) MHead (sanitize_prog cfg fuel).
Proof.
  unfold sanitize_prog. apply ob_bind. eapply obeys_weaken; [|apply ob_loop; apply st_ok_st0].
  intros m r. destruct r; cbn [stdQ]; auto. intros (-> & Hs).
  apply ob_bind. eapply obeys_weaken; [|apply ob_check_end].
  intros m r. destruct r; cbn [stdQ]; auto. intros ->. now apply ob_finish.
Qed.

(* ================================================================================================ *)
(* on the ideal cursor *)
Lemma cursor_exact inp lenient ms : answers_valid exact_reads (cursor inp lenient ms).
Proof.
  intros o s. rewrite cursor_rstep. destruct o as [ |n|n| | |n|n]; cbn [cursor_step exact_reads fst]; auto.
  destruct ((n =? 0) || (s + n <=? ilen inp)); cbn [fst]; [|exact Logic.I]. rewrite length_iread. apply N2Nat.id.
Qed.

(* how the ideal cursor can fail *)
Definition cursor_fails (inp : input) (lenient : bool) (ms : N) (o : op) (e : ioerr) (pos : N) : Prop :=
  match o with
  | OReadExact _ => e = EUnexpectedEof
  | OSkip n =>
      pos <= ilen inp /\
      if lenient then ms < pos + n /\ e = (if (I64MAX' <? n) && (U64MAX' <? pos + n) then EInvalidData else EInvalidInput)
      else e = EUnexpectedEof
  | _ => False
  end.

Definition cur_inv (inp : input) (lenient : bool) (ms B : N) (m : mstate) (pos : N) : Prop :=
  match m with
  | MIter => pos < ilen inp
  | MHdr start got => pos = start + got /\ pos <= ilen inp /\ got <= 32
  | MLenQ | MBody => pos <= ilen inp
  | MAlloc n => pos <= ilen inp /\ n <= B
  | MErr o e => cursor_fails inp lenient ms o e pos
  | _ => True
  end.

Definition step_props (inp : input) (B F : N) (m : mstate) (pos : N) (o : op) (a : resp) : Prop :=
  read_confined B m pos o a /\ alloc_bounded B F m pos o a /\ (match o with OSkip _ => pos <= ilen inp | _ => True end).

Lemma hdr_read_ok_le got n : hdr_read_ok got n = true -> got + n <= 32.
Proof. unfold hdr_read_ok. lia. Qed.

Lemma cursor_step_invariant inp lenient ms B F :
  step_invariant (mp4_mstep B F) (cursor inp lenient ms) (cur_inv inp lenient ms B) (step_props inp B F).
Proof.
  intros m pos o m' HI Hs. rewrite cursor_rstep in *. change (rst (cursor inp lenient ms)) with N in *.
  unfold step_props, read_confined, alloc_bounded.
  destruct m as [ | |start got| | |k|k|o' e'| ]; cbn [mp4_mstep cur_inv] in *; try discriminate.
  - (* MHead *)
    destruct o; try discriminate. cbn [cursor_step fst snd on_bool] in *. injection Hs as <-.
    repeat split; auto. destruct (N.leb_spec (ilen inp) pos); cbn [cur_inv]; [exact Logic.I | lia].
  - (* MIter *)
    destruct o; try discriminate. cbn [cursor_step fst snd on_num] in *. injection Hs as <-.
    repeat split; auto; cbn [cur_inv]; lia.
  - (* MHdr *)
    destruct HI as (Hp & Hle & Hg).
    destruct o as [ |n|n| | |n|n].
    + destruct (N.leb_spec 8 got); discriminate.
    + destruct (hdr_read_ok got n) eqn:Eok; [|discriminate]. pose proof (hdr_read_ok_le _ _ Eok).
      assert (Hn0 : (n =? 0) = false) by (unfold hdr_read_ok in Eok; lia).
      cbn [cursor_step] in *. rewrite Hn0 in *. cbn [orb] in *.
      destruct (N.leb_spec (pos + n) (ilen inp)); cbn [fst snd on_bytes] in *; injection Hs as <-.
      * split; [|cbn [cur_inv]; lia]. repeat split; auto. left. exists start, got. auto.
      * split; [|cbn [cur_inv cursor_fails]; auto]. repeat split; auto. left. exists start, got. auto.
    + destruct (N.leb_spec 8 got); [|discriminate]. cbn [body_step cursor_step] in *.
      destruct lenient.
      * destruct (N.leb_spec (pos + n) ms); cbn [fst snd on_unit] in *.
        { injection Hs as <-. repeat split; auto. }
        destruct ((I64MAX' <? n) && (U64MAX' <? pos + n)) eqn:Ec; cbn [fst snd on_unit] in *; injection Hs as <-;
          repeat split; auto; cbn [cur_inv cursor_fails]; rewrite ?Ec; auto.
      * destruct (N.leb_spec (pos + n) (ilen inp)); cbn [fst snd on_unit] in *; injection Hs as <-;
          repeat split; auto.
    + destruct (N.leb_spec 8 got); discriminate.
    + destruct (N.leb_spec 8 got); [|discriminate]. cbn [body_step cursor_step fst snd on_num] in *. injection Hs as <-.
      repeat split; auto.
    + destruct (N.leb_spec 8 got); [|discriminate]. cbn [body_step cursor_step fst snd] in *.
      destruct (N.leb_spec n B); [|discriminate]. injection Hs as <-. repeat split; auto; cbn [cur_inv]; lia.
    + destruct (N.leb_spec 8 got); discriminate.
  - (* MLenQ *)
    destruct o; try discriminate. cbn [cursor_step fst snd on_num] in *. injection Hs as <-. repeat split; auto.
  - (* MBody *)
    destruct o as [ |n|n| | |n|n]; cbn [body_step] in *; try discriminate.
    + cbn [cursor_step] in *. destruct lenient.
      * destruct (N.leb_spec (pos + n) ms); cbn [fst snd on_unit] in *.
        { injection Hs as <-. repeat split; auto. }
        destruct ((I64MAX' <? n) && (U64MAX' <? pos + n)) eqn:Ec; cbn [fst snd on_unit] in *; injection Hs as <-;
          repeat split; auto; cbn [cur_inv cursor_fails]; rewrite ?Ec; auto.
      * destruct (N.leb_spec (pos + n) (ilen inp)); cbn [fst snd on_unit] in *; injection Hs as <-;
          repeat split; auto.
    + destruct (N.leb_spec n B); [|discriminate]. cbn [cursor_step fst snd] in *. injection Hs as <-.
      repeat split; auto; cbn [cur_inv]; lia.
  - (* MAlloc *)
    destruct HI as (Hle & Hk).
    destruct o as [ |n|n| | |n|n]; try discriminate. destruct (N.eqb_spec n k) as [->|]; [|discriminate].
    cbn [cursor_step] in *. destruct ((k =? 0) || (pos + k <=? ilen inp)); cbn [fst snd on_bytes] in *; injection Hs as <-;
      repeat split; auto; right; split; auto.
  - (* MEnd *)
    destruct o as [ |n|n| | |n|n]; try discriminate.
    + destruct (k =? 0); [|discriminate]. cbn [cursor_step fst snd on_num] in *. injection Hs as <-. repeat split; auto.
    + destruct (k =? 1); [|discriminate]. cbn [cursor_step fst snd on_num] in *. injection Hs as <-. repeat split; auto.
    + destruct (N.eqb_spec k 2) as [->|]; [|discriminate]. cbn [andb] in Hs. destruct (N.leb_spec n F); [|discriminate].
      cbn [cursor_step fst snd] in *. injection Hs as <-. repeat split; auto.
Qed.

(* C10: every step of every run on the ideal cursor *)
Theorem sanitize_steps cfg fuel inp lenient ms :
  all_steps (mp4_mstep (bound cfg) (fbound cfg)) (cursor inp lenient ms) (step_props inp (bound cfg) (fbound cfg)) (sanitize_prog cfg fuel) 0 MHead.
Proof.
  eapply obeys_steps; [apply ob_sanitize | apply cursor_exact | apply cursor_step_invariant | exact Logic.I].
Qed.

Theorem reads_confined cfg fuel inp lenient ms :
  all_steps (mp4_mstep (bound cfg) (fbound cfg)) (cursor inp lenient ms) (read_confined (bound cfg)) (sanitize_prog cfg fuel) 0 MHead.
Proof. eapply all_steps_weaken; [|apply sanitize_steps]. intros m s o a H. apply H. Qed.

Theorem allocs_bounded cfg fuel inp lenient ms :
  all_steps (mp4_mstep (bound cfg) (fbound cfg)) (cursor inp lenient ms) (alloc_bounded (bound cfg) (fbound cfg)) (sanitize_prog cfg fuel) 0 MHead.
Proof. eapply all_steps_weaken; [|apply sanitize_steps]. intros m s o a H. apply H. Qed.

(* the monitor accepts the run over ANY reader whose read_exact answers have the length asked for *)
Theorem sanitize_monitored cfg fuel (R : reader) : answers_valid exact_reads R ->
  forall s, all_steps (mp4_mstep (bound cfg) (fbound cfg)) R (fun _ _ _ _ => True) (sanitize_prog cfg fuel) s MHead.
Proof.
  intros HV s. eapply (obeys_steps _ _ _ _ _ (ob_sanitize cfg fuel) R HV (fun _ _ => True)); [|exact Logic.I].
  intros m s' o m' _ _. auto.
Qed.

(* C10: the returned metadata, padding included *)
Theorem metadata_bounded cfg fuel inp lenient ms o :
  mp4_sanitize cfg lenient ms inp fuel = Ok o -> md_bounded cfg o.
Proof.
  unfold mp4_sanitize. intros H.
  destruct (obeys_final _ _ _ _ _ (ob_sanitize cfg fuel) _ (cursor_exact inp lenient ms) 0) as (m' & _ & HQ).
  rewrite H in HQ. exact HQ.
Qed.

Theorem metadata_size_bounded : forall (cfg : config) (fuel : nat) (inp : input) (lenient : bool) (max_seek : N)
                                       (md : bytes) (z : N) (sp : span),
  mp4_sanitize cfg lenient max_seek inp fuel = Ok {| o_metadata := Some (md, z); o_data := sp |} ->
  N.of_nat (length md) + z <= 2 * (max_metadata_size cfg + 1024 + 64).
Proof. intros cfg fuel inp lenient ms md z sp H. exact (metadata_bounded cfg fuel inp lenient ms _ H). Qed.


(* C13: no spurious Io on the ideal cursor *)
Theorem no_spurious_io cfg fuel inp lenient ms e :
  mp4_sanitize cfg lenient ms inp fuel = EIo e ->
  lenient = true /\
  exists n pos, pos <= ilen inp /\ ms < pos + n /\
    e = (if (I64MAX' <? n) && (U64MAX' <? pos + n) then EInvalidData else EInvalidInput).
Proof.
  unfold mp4_sanitize. intros H.
  destruct (obeys_final_inv _ _ _ _ _ (ob_sanitize cfg fuel) _ (cursor_exact inp lenient ms) _ _
              (cursor_step_invariant inp lenient ms (bound cfg) (fbound cfg)) 0 Logic.I) as (m' & _ & HI & HQ).
  rewrite H in HQ. cbn [stdQ io_only_from_reader] in HQ. destruct HQ as (o & -> & Hplain).
  cbn [cur_inv] in HI. unfold cursor_fails in HI.
  destruct o as [ |n|n| | |n|n]; try (now destruct HI).
  - subst e. destruct (Hplain eq_refl) as [Hx | [Hx | Hx]]; discriminate Hx.
  - destruct HI as (Hle & HI). destruct lenient.
    + split; [reflexivity|]. destruct HI as (Hms & He). eexists n, _. split; [exact Hle|]. split; [exact Hms | exact He].
    + subst e. destruct (Hplain eq_refl) as [Hx | [Hx | Hx]]; discriminate Hx.
Qed.

Corollary no_spurious_io_in_memory cfg fuel inp lenient e :
  ilen inp <= I64MAX' ->
  mp4_sanitize cfg lenient U64MAX' inp fuel = EIo e -> lenient = true /\ e = EInvalidData.
Proof.
  intros Hl H. destruct (no_spurious_io _ _ _ _ _ _ H) as (-> & n & pos & Hp & Hms & ->). split; [reflexivity|].
  unfold I64MAX', U64MAX' in *.
  destruct (N.ltb_spec 9223372036854775807 n); [|lia].
  destruct (N.ltb_spec 18446744073709551615 (pos + n)); [reflexivity | lia].
Qed.

Corollary no_spurious_io_strict cfg fuel inp ms e : mp4_sanitize cfg false ms inp fuel <> EIo e.
Proof. intros H. now destruct (no_spurious_io _ _ _ _ _ _ H). Qed.

(* C10: media is never inspected (through the trace): inputs of equal length that differ only in bytes the run
   passes over by a successful skip give the same result *)
Theorem media_noninterference cfg fuel i1 i2 lenient ms :
  ilen i1 = ilen i2 ->
  (forall j, iget i1 j <> iget i2 j ->
     exists n q, In (OSkip n, q) (trace_of (cursor i1 lenient ms) (fun s => s) (sanitize_prog cfg fuel) 0) /\
                 q <= j < q + covered i1 lenient ms (OSkip n) q) ->
  mp4_sanitize cfg lenient ms i2 fuel = mp4_sanitize cfg lenient ms i1 fuel.
Proof.
  intros Hl H. unfold mp4_sanitize. f_equal. now apply (skipped_noninterference (sanitize_prog cfg fuel)).
Qed.

(* ================================================================================================ *)
(* a sample sparse input (the witness of the former finding D6, repaired in /repo by 3c176e3: the padding box is now
   bounded by the metadata length): ftyp (20 bytes), a free box declaring 2^20 bytes, mdat, moov (60 bytes);
   max_metadata_size = 4096.  The gap is larger than the metadata, so the chunk offsets are displaced instead. *)
Definition d6_cfg : config := {| max_metadata_size := 4096; cumulative_mdat_box_size := None |}.
Definition d6_input : input :=
  input_of_exts 1048667
    [(0, [x00; x00; x00; x14; x66; x74; x79; x70; x69; x73; x6f; x6d; x00; x00; x00; x00; x69; x73; x6f; x6d;
          x00; x00; x00; x01; x66; x72; x65; x65; x00; x00; x00; x00; x00; x10; x00; x00]);
     (1048596, [x00; x00; x00; x0b; x6d; x64; x61; x74; x61; x62; x63;
                x00; x00; x00; x3c; x6d; x6f; x6f; x76; x00; x00; x00; x34; x74; x72; x61; x6b; x00; x00; x00; x2c; x6d; x64; x69; x61;
                x00; x00; x00; x24; x6d; x69; x6e; x66; x00; x00; x00; x1c; x73; x74; x62; x6c; x00; x00; x00; x14; x73; x74; x63; x6f;
                x00; x00; x00; x00; x00; x00; x00; x01; x00; x10; x00; x18])].

(* ---- non-vacuity of the hypotheses used above *)
Example no_spurious_io_example :
  (* a skip whose target exceeds 2^64-1: ftyp then a 64-bit mdat declaring 2^64-1 bytes *)
  let inp := input_of_bytes [x00; x00; x00; x14; x66; x74; x79; x70; x69; x73; x6f; x6d; x00; x00; x00; x00; x69; x73; x6f; x6d;
                             x00; x00; x00; x01; x6d; x64; x61; x74; xff; xff; xff; xff; xff; xff; xff; xff] in
  mp4_sanitize d6_cfg true U64MAX' inp 10 = EIo EInvalidData /\ mp4_sanitize d6_cfg false U64MAX' inp 10 = EParse TruncatedBox.
Proof. vm_compute. split; reflexivity. Qed.

Example media_noninterference_example :
  (* the d6 input with one mdat payload byte changed differs only inside a skipped interval *)
  exists n q, In (OSkip n, q) (trace_of (cursor d6_input true U64MAX') (fun s => s) (sanitize_prog d6_cfg 10) 0) /\
              q <= 1048605 < q + covered d6_input true U64MAX' (OSkip n) q.
Proof. exists 3, 1048604. vm_compute. split; [tauto | split; [discriminate | reflexivity]]. Qed.

Example metadata_bounded_example :
  exists md z sp, mp4_sanitize d6_cfg true U64MAX' d6_input 10 = Ok {| o_metadata := Some (md, z); o_data := sp |} /\
                  N.of_nat (length md) + z = 80.
Proof. eexists. eexists. eexists. split; vm_compute; reflexivity. Qed.

(* ================================================================================================ *)
(* the statements of Props/C13.v, spelled out *)
Theorem fault_propagates_mp4 : forall (cfg : config) (fuel : nat) (R : reader) (s : rst R) (k : nat) (e : ioerr),
  let p := sanitize_prog cfg fuel in
  ((op_count R p s <= k)%nat /\ run_fault R p s k e = run R p s)
  \/ ((k < op_count R p s)%nat /\
      (fst (run_fault R p s k e) = EIo e \/
       (e = EUnexpectedEof /\ fst (run_fault R p s k e) = EParse TruncatedBox))).
Proof.
  intros cfg fuel R s k e p.
  destruct (run_fault_spec TB p (propagating_sanitize cfg fuel) R s k e) as [H | (Hk & [H | (He & pe & <- & H)])]; auto.
Qed.

Theorem reader_error_propagates_mp4 : forall (cfg : config) (fuel : nat) (R : reader) (s : rst R) (o : op) (e : ioerr),
  let p := sanitize_prog cfg fuel in
  first_err R p s = Some (o, e) ->
  fst (run R p s) = EIo e \/ (e = EUnexpectedEof /\ fst (run R p s) = EParse TruncatedBox).
Proof.
  intros cfg fuel R s o e p H.
  destruct (run_err_spec TB p (propagating_sanitize cfg fuel) R s o e H) as [H' | (He & pe & <- & H')]; auto.
Qed.

Example fault_propagates_example :
  let R := cursor d6_input true U64MAX' in let p := sanitize_prog d6_cfg 10 in
  op_count R p 0 = 24%nat /\
  fst (run_fault R p 0 2 EUnexpectedEof) = EParse TruncatedBox /\ fst (run_fault R p 0 1 EUnexpectedEof) = EIo EUnexpectedEof /\
  fst (run_fault R p 0 23 ETimedOut) = EIo ETimedOut /\ run_fault R p 0 24 ETimedOut = run R p 0.
Proof. vm_compute. repeat split. Qed.
