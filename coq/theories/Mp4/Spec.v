(* INDEPENDENT SPECIFICATION for the MP4 properties (C01-C05, C10, C14), written from the property texts and
   ISO/IEC 14496-12 box syntax, not from the code.  Literal numbers of the property text are used here
   (1024, 8, 2^31 ...); nothing is imported from Gen/Consts.v or from the model files Header.v/Box.v/San.v. *)
From Coq Require Import List NArith ZArith Bool Lia.
From Coq.Strings Require Import Byte.
From MS Require Import Base.Bytes Base.Prog.
Import ListNotations.
Open Scope N_scope.

(* ---------------------------------------------------------------- byte strings *)
Definition beq (a b : bytes) : bool := if list_eq_dec Byte.byte_eq_dec a b then true else false.
Definition slice (l : bytes) (off len : N) : bytes := firstn (N.to_nat len) (skipn (N.to_nat off) l).
Definition blen (l : bytes) : N := N.of_nat (length l).
Definition fourcc (a b c d : byte) : bytes := [a; b; c; d].
Definition FTYP := fourcc x66 x74 x79 x70.  Definition MOOV := fourcc x6d x6f x6f x76.
Definition MDAT := fourcc x6d x64 x61 x74.  Definition FREE := fourcc x66 x72 x65 x65.
Definition SKIP := fourcc x73 x6b x69 x70.  Definition META := fourcc x6d x65 x74 x61.
Definition MECO := fourcc x6d x65 x63 x6f.  Definition TRAK := fourcc x74 x72 x61 x6b.
Definition MDIA := fourcc x6d x64 x69 x61.  Definition MINF := fourcc x6d x69 x6e x66.
Definition STBL := fourcc x73 x74 x62 x6c.  Definition STCO := fourcc x73 x74 x63 x6f.
Definition CO64 := fourcc x63 x6f x36 x34.  Definition UUID := fourcc x75 x75 x69 x64.
Definition ISOM := fourcc x69 x73 x6f x6d.

(* ---------------------------------------------------------------- box header syntax (14496-12, 4.2)
   size(32) type(32) [largesize(64) if size==1] [usertype(128) if type=='uuid'];  size==0: to end of file.
   A box type is 4 bytes, or 'uuid' followed by 16 bytes (kept as 20 bytes so that uuid types are never
   confused with four-character codes). *)
Record shdr := { sh_type : bytes; sh_size : option N (* declared total size; None = to the end *); sh_len : N }.

Definition shdr_of (l : bytes) : option shdr :=
  if blen l <? 8 then None else
  let sz := be2n (slice l 0 4) in
  let ty := slice l 4 4 in
  let after_size := if sz =? 1 then 16 else 8 in
  if blen l <? after_size then None else
  let size := if sz =? 0 then None else if sz =? 1 then Some (be2n (slice l 8 8)) else Some sz in
  if beq ty UUID then
    if blen l <? after_size + 16 then None
    else Some {| sh_type := ty ++ slice l after_size 16; sh_size := size; sh_len := after_size + 16 |}
  else Some {| sh_type := ty; sh_size := size; sh_len := after_size |}.

(* ---------------------------------------------------------------- top-level tiling of an input *)
Record tbox := { tb_off : N; tb_type : bytes; tb_hlen : N; tb_size : N (* resolved total size *) }.
Definition tb_end (b : tbox) : N := tb_off b + tb_size b.
Definition tb_payload (inp : input) (b : tbox) : bytes :=
  iread inp (tb_off b + tb_hlen b) (N.to_nat (tb_size b - tb_hlen b)).

Definition window (inp : input) (off : N) : bytes := iread inp off (N.to_nat (N.min 32 (ilen inp - off))).

(* [cum]: cumulative_mdat_box_size: an until-EOF mdat counts as if it declared that 32-bit size (C14) *)
Fixpoint tile (fuel : nat) (cum : option N) (inp : input) (off : N) : option (list tbox) :=
  if ilen inp <=? off then (if off =? ilen inp then Some [] else None) else
  match fuel with
  | O => None
  | S fuel' =>
    match shdr_of (window inp off) with
    | None => None                                            (* truncated header *)
    | Some h =>
        let size := match sh_size h with
                    | Some s => s
                    | None => match cum with
                              | Some c => if beq (sh_type h) MDAT then c else ilen inp - off
                              | None => ilen inp - off
                              end
                    end in
        if size <? sh_len h then None                          (* size smaller than its own header *)
        else if ilen inp <? off + size then None               (* box extends past the end: truncated *)
        else match tile fuel' cum inp (off + size) with
             | None => None
             | Some r => Some ({| tb_off := off; tb_type := sh_type h; tb_hlen := sh_len h; tb_size := size |} :: r)
             end
    end
  end.

Definition is t (b : tbox) : bool := beq (tb_type b) t.
Definition is_pad (b : tbox) : bool := is FREE b || is SKIP b.
Definition is_filler (b : tbox) : bool := is MDAT b || is FREE b || is SKIP b || is META b || is MECO b.

(* the media run: from the first mdat, the maximal run of consecutive mdat/free/skip/meta/meco boxes *)
Fixpoint take_while {A} (f : A -> bool) (l : list A) : list A :=
  match l with [] => [] | x :: r => if f x then x :: take_while f r else [] end.
Fixpoint drop_until {A} (f : A -> bool) (l : list A) : list A :=
  match l with [] => [] | x :: r => if f x then l else drop_until f r end.
Definition media_boxes (bs : list tbox) : list tbox := take_while is_filler (drop_until (is MDAT) bs).
Definition media_run (bs : list tbox) : option (N * N) :=
  match media_boxes bs with
  | [] => None
  | b :: r => Some (tb_off b, fold_left (fun a x => a + tb_size x) (b :: r) 0)
  end.
Definition inside (sp : N * N) (b : tbox) : bool := (fst sp <=? tb_off b) && (tb_end b <=? fst sp + snd sp).

(* ---------------------------------------------------------------- boxes inside a payload (in memory) *)
Record cbox := { cb_type : bytes; cb_hoff : N (* offset of the header in the parent payload *);
                 cb_poff : N (* offset of the payload *); cb_plen : N }.

Fixpoint children (fuel : nat) (p : bytes) (off : N) : option (list cbox) :=
  if blen p <=? off then Some [] else
  match fuel with
  | O => None
  | S fuel' =>
    match shdr_of (slice p off 32) with
    | None => None
    | Some h =>
        let size := match sh_size h with Some s => s | None => blen p - off end in
        if size <? sh_len h then None
        else if blen p <? off + size then None
        else match children fuel' p (off + size) with
             | None => None
             | Some r => Some ({| cb_type := sh_type h; cb_hoff := off; cb_poff := off + sh_len h;
                                  cb_plen := size - sh_len h |} :: r)
             end
    end
  end.
Definition kids (p : bytes) (off len : N) : option (list cbox) :=
  (* children of the region [off, off+len) of p, offsets relative to p *)
  match children (S (N.to_nat (len / 8))) (slice p off len) 0 with
  | None => None
  | Some l => Some (map (fun c => {| cb_type := cb_type c; cb_hoff := off + cb_hoff c;
                                     cb_poff := off + cb_poff c; cb_plen := cb_plen c |}) l)
  end.

Definition only (t : bytes) (l : list cbox) : option cbox :=
  match filter (fun c => beq (cb_type c) t) l with [c] => Some c | _ => None end.
Definition count_of (t : bytes) (l : list cbox) : nat := length (filter (fun c => beq (cb_type c) t) l).

(* a chunk-offset table region: (entry width, offset of the first entry in the moov payload, entry count) *)
Definition region := (N * N * N)%type.

(* stco / co64 payload = version(8)=0 flags(24)=0 entry_count(32) entries(count x width), nothing else *)
Definition table_region (p : bytes) (w : N) (c : cbox) : option region :=
  if cb_plen c <? 8 then None else
  if negb (be2n (slice p (cb_poff c) 4) =? 0) then None else
  let count := be2n (slice p (cb_poff c + 4) 4) in
  if cb_plen c =? 8 + w * count then Some (w, cb_poff c + 8, count) else None.

(* exactly one mdia > minf > stbl chain holding exactly one stco or co64 table *)
Definition trak_region (p : bytes) (t : cbox) : option region :=
  match kids p (cb_poff t) (cb_plen t) with None => None | Some tk =>
  match only MDIA tk with None => None | Some mdia =>
  match kids p (cb_poff mdia) (cb_plen mdia) with None => None | Some mk =>
  match only MINF mk with None => None | Some minf =>
  match kids p (cb_poff minf) (cb_plen minf) with None => None | Some nk =>
  match only STBL nk with None => None | Some stbl =>
  match kids p (cb_poff stbl) (cb_plen stbl) with None => None | Some sk =>
  match count_of STCO sk, count_of CO64 sk with
  | 1%nat, 0%nat => match only STCO sk with Some c => table_region p 4 c | None => None end
  | 0%nat, 1%nat => match only CO64 sk with Some c => table_region p 8 c | None => None end
  | _, _ => None
  end end end end end end end end.

Fixpoint all_some {A} (l : list (option A)) : option (list A) :=
  match l with
  | [] => Some []
  | None :: _ => None
  | Some a :: r => match all_some r with Some r' => Some (a :: r') | None => None end
  end.

(* the chunk-offset tables of a moov payload, one per trak, in track order; None = not a valid moov *)
Definition co_regions (p : bytes) : option (list region) :=
  match kids p 0 (blen p) with
  | None => None
  | Some mk =>
      let traks := filter (fun c => beq (cb_type c) TRAK) mk in
      match traks with
      | [] => None                                    (* at least one trak *)
      | _ => all_some (map (trak_region p) traks)
      end
  end.

Definition entries (p : bytes) (r : region) : list N :=
  let '(w, off, count) := r in
  map (fun i => be2n (slice p (off + w * N.of_nat i) w)) (seq 0 (N.to_nat count)).
Definition co_tables (p : bytes) : option (list (N * list N)) :=
  match co_regions p with
  | None => None
  | Some rs => Some (map (fun r => (fst (fst r), entries p r)) rs)
  end.

(* byte equality outside the entry tables *)
Definition in_region (rs : list region) (i : N) : bool :=
  existsb (fun r : region => let '(w, off, count) := r in (off <=? i) && (i <? off + w * count)) rs.
Fixpoint masked_eq_from (rs : list region) (i : N) (a b : bytes) : bool :=
  match a, b with
  | [], [] => true
  | x :: a', y :: b' => (in_region rs i || (if Byte.byte_eq_dec x y then true else false)) && masked_eq_from rs (i + 1) a' b'
  | _, _ => false
  end.
Definition masked_eq (rs : list region) (a b : bytes) : bool := masked_eq_from rs 0 a b.

(* exact shift of a table entry (C01): Some (e + delta) when representable in the field, None otherwise *)
Definition shift (w : N) (delta : Z) (e : N) : option N :=
  let v := (Z.of_N e + delta)%Z in
  if (0 <=? v)%Z && (v <? 2 ^ (8 * Z.of_N w))%Z then Some (Z.to_N v) else None.

(* ---------------------------------------------------------------- acceptance rules (C05) *)
Record sconfig := { c_max : N; c_cum : option N }.

Fixpoint groups4 (fuel : nat) (l : bytes) : list bytes :=
  match fuel with O => [] | S f => if blen l <? 4 then [] else slice l 0 4 :: groups4 f (skipn 4 l) end.
Definition ftyp_ok (payload : bytes) : bool :=
  (8 <=? blen payload) && (blen payload <=? 1024) &&
  existsb (beq ISOM) (groups4 (length payload) (skipn 8 payload)).

Definition moov_ok (max : N) (payload : bytes) : bool :=
  (blen payload <=? max) && (match co_regions payload with Some _ => true | None => false end).

(* only free/skip before the single ftyp; every other box moov/mdat/free/skip/meta/meco *)
Fixpoint layout_ok (seen_ftyp : bool) (bs : list tbox) : bool :=
  match bs with
  | [] => seen_ftyp
  | b :: r =>
      if is FTYP b then negb seen_ftyp && layout_ok true r
      else if is_pad b then layout_ok seen_ftyp r
      else seen_ftyp && (is MOOV b || is MDAT b || is META b || is MECO b) && layout_ok seen_ftyp r
  end.

(* all mdat boxes lie in one contiguous run of mdat/free/skip/meta/meco boxes *)
Definition mdat_contiguous (bs : list tbox) : bool :=
  let after := skipn (length (media_boxes bs)) (drop_until (is MDAT) bs) in
  negb (existsb (is MDAT) after).

(* the tiling of a whole input; every box is at least 8 bytes long, so ilen/8+1 steps always suffice *)
Definition tiling (cum : option N) (inp : input) : option (list tbox) :=
  tile (S (N.to_nat (ilen inp / 8))) cum inp 0.

Definition accept_boxes (cfg : sconfig) (inp : input) (bs : list tbox) : bool :=
  layout_ok false bs
  && forallb (fun b => if is FTYP b then ftyp_ok (tb_payload inp b) else true) bs
  && existsb (is MOOV) bs
  && forallb (fun b => if is MOOV b then moov_ok (c_max cfg) (tb_payload inp b) else true) bs
  && existsb (is MDAT) bs
  && mdat_contiguous bs.

Definition accept_spec (cfg : sconfig) (inp : input) : bool :=
  match tiling (c_cum cfg) inp with
  | None => false
  | Some bs => accept_boxes cfg inp bs
  end.

Definition last_moov (bs : list tbox) : option tbox := hd_error (rev (filter (is MOOV) bs)).
Definition first_mdat (bs : list tbox) : option tbox := hd_error (filter (is MDAT) bs).

(* returned metadata (C02): ftyp, moov, optionally one free box of zeros; explicit sizes; nothing else.
   The metadata is given as an input (byte string followed by a run of zeros = [md_input bytes zeros]). *)
Definition md_input (md : bytes) (zeros : N) : input := input_of_exts (blen md + zeros) [(0, md)].

Definition metadata_shape (inp : input) : option (bytes * bytes * N) (* ftyp payload, moov payload, padding box size or 0 *) :=
  match tile 4 None inp 0 with
  | Some [f; m] =>
      if is FTYP f && is MOOV m then Some (tb_payload inp f, tb_payload inp m, 0) else None
  | Some [f; m; p] =>
      if is FTYP f && is MOOV m && is FREE p && forallb (fun b => b2n b =? 0) (tb_payload inp p)
      then Some (tb_payload inp f, tb_payload inp m, tb_size p) else None
  | _ => None
  end.
(* none of the top-level headers of md uses the to-end-of-file size *)
Definition explicit_sizes (inp : input) : bool :=
  match tile 4 None inp 0 with
  | Some bs => forallb (fun b => negb (be2n (iread inp (tb_off b) 4) =? 0)) bs
  | None => false
  end.

(* ---------------------------------------------------------------- the rewrite plan (C01, C02, C05) *)
Definition new_hlen (plen : N) : N := if plen + 8 <=? 4294967295 then 8 else 16.
Definition metadata_len (fp mp : bytes) : N := new_hlen (blen fp) + blen fp + new_hlen (blen mp) + blen mp.

Inductive plan := NoRewrite | Pad (n : N) (* padding box of n bytes, n = 0: none *) | Shift (d : Z) | Refuse.

Definition the_ftyp (bs : list tbox) : option tbox := hd_error (filter (is FTYP) bs).

Definition plan_of (inp : input) (bs : list tbox) : option plan :=
  match the_ftyp bs, last_moov bs, first_mdat bs with
  | Some f, Some m, Some d =>
      if tb_off m <? tb_off d then Some NoRewrite else
      let ml := metadata_len (tb_payload inp f) (tb_payload inp m) in
      let off := tb_off d in
      if off =? ml then Some (Pad 0)
      else if (ml + 8 <=? off) && (off - ml <=? 4294967295 - 8) && (off - ml <=? ml) then Some (Pad (off - ml))   (* padding never exceeds the metadata itself (C10) *)
      else let delta := (Z.of_N ml - Z.of_N off)%Z in
           if (- 2 ^ 31 <=? delta)%Z && (delta <? 2 ^ 31)%Z then Some (Shift delta) else Some Refuse
  | _, _, _ => None
  end.

(* the overflow cases of C01: the shift does not fit i32, or some shifted entry does not fit its field *)
Definition overflow_case (inp : input) (bs : list tbox) : bool :=
  match plan_of inp bs, last_moov bs with
  | Some Refuse, _ => true
  | Some (Shift d), Some m =>
      match co_tables (tb_payload inp m) with
      | Some ts => existsb (fun t : N * list N => existsb (fun e => match shift (fst t) d e with None => true | Some _ => false end) (snd t)) ts
      | None => false
      end
  | _, _ => false
  end.
