(* Interface lemmas about the box-tree model (Mp4/Box.v) against the specification (Mp4/Spec.v, Mp4/ShiftSpec.v)
   for one moov payload p:  moov_check_iff_spec, moov_check_put (re-exported from BoxProofsLazy), moov_check_no_panic,
   moov_check_fuel_enough, shift_spec, shift_ok_iff, offsets_shifted, shape_preserved, overflow_rejected,
   each_trak_shift_no_panic, ftyp_identical.  The top-level assembly (sanitize over whole inputs) is elsewhere. *)
From Coq Require Import List NArith ZArith Bool Lia Arith.
From Coq.Strings Require Import Byte.
From MS Require Import Base.Bytes Base.Outcome Base.AddSignedProofs Gen.Kernels Mp4.Header Mp4.HeaderProofs Mp4.Box Mp4.San Mp4.Spec.
From MS Require Export Mp4.ShiftSpec Mp4.BoxProofsLazy.
From MS Require Import Mp4.BoxProofsLib Mp4.BoxProofsParse Mp4.BoxProofsChain Mp4.BoxProofsShift.
Import ListNotations.
Open Scope N_scope.
Arguments N.add : simpl never.
Arguments N.sub : simpl never.
Arguments N.mul : simpl never.
Arguments N.div : simpl never.
Arguments N.modulo : simpl never.
Arguments N.pow : simpl never.
Arguments N.eqb : simpl never.
Arguments N.ltb : simpl never.
Arguments N.leb : simpl never.


(* ================================================================== B. model versus specification *)
Lemma moov_check_iff_spec : forall p, blen p < 4294967296 ->
  is_ok (moov_check p) = match co_regions p with Some _ => true | None => false end.
Proof.
  intros p B. pose proof (moov_core p) as C.
  destruct (moov_check p) as [kids|x| | |]; cbn [is_ok].
  - destruct C as (l & _ & _ & _ & _ & ->). reflexivity.
  - rewrite (C B). reflexivity.
  - destruct (C B). - destruct (C B). - destruct (C B).
Qed.

Lemma moov_check_no_panic : forall p, blen p < 4294967296 -> forall s, moov_check p <> Panic s.
Proof. intros p B s E. pose proof (moov_core p) as C. rewrite E in C. exact (C B). Qed.
Lemma moov_check_fuel_enough : forall p, blen p < 4294967296 -> moov_check p <> OutOfFuel.
Proof. intros p B E. pose proof (moov_core p) as C. rewrite E in C. exact (C B). Qed.
Lemma moov_check_no_io : forall p, blen p < 4294967296 -> forall e, moov_check p <> EIo e.
Proof. intros p B s E. pose proof (moov_core p) as C. rewrite E in C. exact (C B). Qed.
(* an accepted moov payload has the chunk-offset tables the specification finds *)
Lemma moov_check_regions : forall p kids, moov_check p = Ok kids -> exists rs, co_regions p = Some rs /\ rs <> [].
Proof.
  intros p kids E. pose proof (moov_core p) as C. rewrite E in C. destruct C as (l & _ & _ & _ & NE & CR).
  exists (map reg l). split; [exact CR|]. destruct l; [congruence | discriminate].
Qed.

Definition shift_walk (d : Z) (kids : list node) : res (list node * list unit) :=
  each_trak kids (shift_table (shift_entry 32 d) (shift_entry 64 d)).

Lemma shift_spec : forall p kids rs ts d,
  moov_check p = Ok kids -> co_regions p = Some rs -> co_tables p = Some ts -> (- 2 ^ 31 <= d < 2 ^ 31)%Z ->
  match shift_all d ts with
  | Some ts' =>
      exists kids' u, each_trak kids (shift_table (shift_entry 32 d) (shift_entry 64 d)) = Ok (kids', u) /\
        co_regions (put_nodes kids') = Some rs /\
        co_tables (put_nodes kids') = Some ts' /\
        blen (put_nodes kids') = blen p /\
        masked_eq rs p (put_nodes kids') = true
  | None => each_trak kids (shift_table (shift_entry 32 d) (shift_entry 64 d)) = EParse InvalidInput
  end.
Proof.
  intros p kids rs ts d E CR CT Hd. pose proof (moov_core p) as C. rewrite E in C.
  destruct C as (l & Tl & Hok & Pp & NE & CR').
  assert (Ers : rs = map reg l) by congruence. subst rs.
  assert (Hocc : occ p 0 (put_nodes kids)) by (rewrite Pp; apply occ_all).
  pose proof (tops_facts _ _ _ Tl) as Ff.
  pose proof (co_tables_tops p l CR' (tops_occ _ _ _ Tl p Hocc) Ff) as CT'.
  assert (Ets : ts = tabs_of l) by congruence. subst ts.
  pose proof (shift_items_spec d l Ff Hd) as SI.
  destruct (shift_all d (tabs_of l)) as [ts'|].
  - destruct SI as (l' & SI & Tl').
    destruct (tops_shift_ok _ _ _ _ _ Tl Hok l' SI) as (kids' & u & ET & Tk & Hok' & _ & Lb & M).
    exists kids', u. split; [exact ET|].
    pose proof (shift_items_reg _ _ _ _ SI) as RG.
    assert (NE' : l' <> []) by (intros ->; destruct l; [congruence | discriminate]).
    pose proof (tops_co_regions _ _ Tk Hok' NE') as CR2. rewrite RG in CR2.
    split; [exact CR2|]. split; [|split].
    + rewrite <- Tl'. apply co_tables_tops; [rewrite RG; exact CR2 | | eapply tops_facts; exact Tk].
      eapply tops_occ; [exact Tk | apply occ_all].
    + rewrite Lb, Pp. reflexivity.
    + unfold masked_eq. rewrite <- Pp at 1. apply M. apply incl_refl.
  - pose proof (tops_shift_err (shift_entry 32 d) (shift_entry 64 d) _ _ _ Tl) as SE. rewrite SI in SE.
    cbn [same_err] in SE.
    destruct (each_trak kids (shift_table (shift_entry 32 d) (shift_entry 64 d))) as [[? ?]|x| | |]; try contradiction.
    rewrite SE. reflexivity.
Qed.

(* ------------------------------------------------------------------ reading shift_all *)
Definition entry_overflows (d : Z) (t : N * list N) : bool :=
  existsb (fun e => match shift (fst t) d e with None => true | Some _ => false end) (snd t).

Lemma all_some_none_iff {A B} (f : A -> option B) (l : list A) :
  (match all_some (map f l) with Some _ => false | None => true end) =
  existsb (fun x => match f x with None => true | Some _ => false end) l.
Proof.
  induction l as [|x l IH]; [reflexivity|]. cbn [map all_some existsb].
  destruct (f x); [|reflexivity]. cbn [orb]. rewrite <- IH. destruct (all_some (map f l)); reflexivity.
Qed.

Lemma existsb_ext_eq {A} (f g : A -> bool) l : (forall x, f x = g x) -> existsb f l = existsb g l.
Proof. intros H. induction l as [|x l IH]; [reflexivity|]. cbn [existsb]. rewrite H, IH. reflexivity. Qed.

Lemma shift_all_none_iff d ts :
  (match shift_all d ts with Some _ => false | None => true end) = existsb (entry_overflows d) ts.
Proof.
  unfold shift_all. rewrite all_some_none_iff. apply existsb_ext_eq. intros t. unfold shift_table_spec, entry_overflows.
  rewrite <- all_some_none_iff. destruct (all_some (map (shift (fst t) d) (snd t))); reflexivity.
Qed.



Lemma all_some_F2 {A B} (f : A -> option B) : forall l r, all_some (map f l) = Some r -> Forall2 (fun x y => f x = Some y) l r.
Proof.
  induction l as [|x l IH]; intros r H; cbn [map all_some] in H.
  - injection H as <-. constructor.
  - destruct (f x) as [y|] eqn:E; [|discriminate]. destruct (all_some (map f l)) as [r0|]; [|discriminate].
    injection H as <-. constructor; [exact E | apply IH; reflexivity].
Qed.

Lemma shift_some w d e e' : shift w d e = Some e' -> Z.of_N e' = (Z.of_N e + d)%Z.
Proof.
  unfold shift. destruct ((0 <=? Z.of_N e + d)%Z && (Z.of_N e + d <? 2 ^ (8 * Z.of_N w))%Z) eqn:E; [|discriminate].
  intros H. injection H as <-. apply andb_prop in E. destruct E as [E _]. apply Z.leb_le in E. lia.
Qed.

Lemma shift_all_shifted d ts ts' : shift_all d ts = Some ts' -> shifted_by d ts ts'.
Proof.
  intros H. apply all_some_F2 in H. unfold shifted_by.
  induction H as [|t t' r r' Ht _ IH]; constructor; [|exact IH].
  unfold shift_table_spec in Ht. destruct (all_some (map (shift (fst t) d) (snd t))) as [es|] eqn:E; [|discriminate].
  injection Ht as <-. cbn [fst snd]. split; [reflexivity|]. apply all_some_F2 in E.
  induction E as [|e e' l l' He _ IH2]; constructor; [eapply shift_some; exact He | exact IH2].
Qed.

(* ------------------------------------------------------------------ corollaries in the words of C01 / C04 / C09 *)
Lemma shift_ok_iff : forall p kids ts d,
  moov_check p = Ok kids -> co_tables p = Some ts -> (- 2 ^ 31 <= d < 2 ^ 31)%Z ->
  is_ok (each_trak kids (shift_table (shift_entry 32 d) (shift_entry 64 d))) =
  negb (existsb (fun t : N * list N =>
                   existsb (fun e => match shift (fst t) d e with None => true | Some _ => false end) (snd t)) ts).
Proof.
  intros p kids ts d E CT Hd. destruct (moov_check_regions p kids E) as (rs & CR & _).
  pose proof (shift_spec p kids rs ts d E CR CT Hd) as S.
  change (existsb _ ts) with (existsb (entry_overflows d) ts). rewrite <- shift_all_none_iff.
  destruct (shift_all d ts).
  - destruct S as (kids' & u & -> & _). reflexivity.
  - rewrite S. reflexivity.
Qed.

Lemma offsets_shifted : forall p kids ts d kids' u,
  moov_check p = Ok kids -> co_tables p = Some ts -> (- 2 ^ 31 <= d < 2 ^ 31)%Z ->
  each_trak kids (shift_table (shift_entry 32 d) (shift_entry 64 d)) = Ok (kids', u) ->
  exists ts', co_tables (put_nodes kids') = Some ts' /\ shift_all d ts = Some ts' /\ shifted_by d ts ts'.
Proof.
  intros p kids ts d kids' u E CT Hd ET. destruct (moov_check_regions p kids E) as (rs & CR & _).
  pose proof (shift_spec p kids rs ts d E CR CT Hd) as S.
  destruct (shift_all d ts) as [ts'|] eqn:SA; [|congruence].
  destruct S as (k2 & u2 & ET2 & _ & CT2 & _). rewrite ET in ET2. injection ET2 as <- <-.
  exists ts'. split; [exact CT2|]. split; [reflexivity | apply shift_all_shifted; exact SA].
Qed.

Lemma shape_preserved : forall p kids rs d kids' u,
  moov_check p = Ok kids -> co_regions p = Some rs -> (- 2 ^ 31 <= d < 2 ^ 31)%Z ->
  each_trak kids (shift_table (shift_entry 32 d) (shift_entry 64 d)) = Ok (kids', u) ->
  co_regions (put_nodes kids') = Some rs /\ blen (put_nodes kids') = blen p /\
  masked_eq rs p (put_nodes kids') = true.
Proof.
  intros p kids rs d kids' u E CR Hd ET.
  assert (CT : co_tables p = Some (map (fun r => (fst (fst r), entries p r)) rs)) by (unfold co_tables; rewrite CR; reflexivity).
  pose proof (shift_spec p kids rs _ d E CR CT Hd) as S.
  destruct (shift_all d _) as [ts'|]; [|congruence].
  destruct S as (k2 & u2 & ET2 & CR2 & _ & L2 & M2). rewrite ET in ET2. injection ET2 as <- <-.
  repeat split; assumption.
Qed.

Lemma overflow_rejected : forall p kids ts d,
  moov_check p = Ok kids -> co_tables p = Some ts -> (- 2 ^ 31 <= d < 2 ^ 31)%Z ->
  (exists t e, In t ts /\ In e (snd t) /\ shift (fst t) d e = None) ->
  each_trak kids (shift_table (shift_entry 32 d) (shift_entry 64 d)) = EParse InvalidInput.
Proof.
  intros p kids ts d E CT Hd (t & e & Ht & He & Hs). destruct (moov_check_regions p kids E) as (rs & CR & _).
  pose proof (shift_spec p kids rs ts d E CR CT Hd) as S.
  pose proof (shift_all_none_iff d ts) as N.
  assert (X : existsb (entry_overflows d) ts = true).
  { apply existsb_exists. exists t. split; [exact Ht|]. unfold entry_overflows. apply existsb_exists. exists e.
    split; [exact He|]. rewrite Hs. reflexivity. }
  rewrite X in N. destruct (shift_all d ts); [discriminate | exact S].
Qed.

Lemma shape_preserved_regions : forall p kids d kids' u,
  moov_check p = Ok kids -> (- 2 ^ 31 <= d < 2 ^ 31)%Z ->
  each_trak kids (shift_table (shift_entry 32 d) (shift_entry 64 d)) = Ok (kids', u) ->
  co_regions (put_nodes kids') = co_regions p /\ co_regions p <> None /\ blen (put_nodes kids') = blen p.
Proof.
  intros p kids d kids' u E Hd ET. destruct (moov_check_regions p kids E) as (rs & CR & _).
  destruct (shape_preserved p kids rs d kids' u E CR Hd ET) as (C2 & L & _).
  rewrite C2, CR. repeat split; [discriminate | exact L].
Qed.

Lemma moov_identical_outside_tables : forall p kids rs d kids' u,
  moov_check p = Ok kids -> co_regions p = Some rs -> (- 2 ^ 31 <= d < 2 ^ 31)%Z ->
  each_trak kids (shift_table (shift_entry 32 d) (shift_entry 64 d)) = Ok (kids', u) ->
  put_nodes kids = p /\ blen (put_nodes kids') = blen p /\ masked_eq rs p (put_nodes kids') = true.
Proof.
  intros p kids rs d kids' u E CR Hd ET. destruct (shape_preserved p kids rs d kids' u E CR Hd ET) as (_ & L & M).
  split; [apply moov_check_put; exact E | split; assumption].
Qed.

Lemma rejected_only_on_overflow : forall p kids ts d,
  moov_check p = Ok kids -> co_tables p = Some ts -> (- 2 ^ 31 <= d < 2 ^ 31)%Z ->
  is_ok (each_trak kids (shift_table (shift_entry 32 d) (shift_entry 64 d))) = false ->
  exists t e, In t ts /\ In e (snd t) /\ shift (fst t) d e = None.
Proof.
  intros p kids ts d E CT Hd H. rewrite (shift_ok_iff p kids ts d E CT Hd) in H.
  apply negb_false_iff in H. apply existsb_exists in H. destruct H as (t & Ht & H).
  apply existsb_exists in H. destruct H as (e & He & H). exists t, e. repeat split; try assumption.
  destruct (shift (fst t) d e); [discriminate | reflexivity].
Qed.

(* the rewrite never panics, runs out of fuel or reports an I/O error, whatever the displacement *)
Lemma shift_entry_benign bits d v : benign (shift_entry bits d v).
Proof. unfold shift_entry. destruct (checked_add_signed bits (Z.of_N v) d); exact I. Qed.

Lemma map_entries_benign f w : (0 < w)%nat -> (forall v, benign (f v)) ->
  forall fuel e, (length e < fuel)%nat -> benign (map_entries fuel w f e).
Proof.
  intros Hw Hf. induction fuel as [|fuel IH]; intros e L; [lia|]. cbn [map_entries].
  destruct (Nat.ltb_spec (length e) w) as [Lw|Lw]; [exact I|].
  pose proof (Hf (be2n (firstn w e))) as B. destruct (f (be2n (firstn w e))); cbn [rbind benign] in *; try contradiction; [|exact I].
  assert (B2 : benign (map_entries fuel w f (skipn w e))) by (apply IH; rewrite skipn_length; lia).
  destruct (map_entries fuel w f (skipn w e)); cbn [rbind benign] in *; try contradiction; exact I.
Qed.

Lemma shift_items_benign f32 f64 l : (forall v, benign (f32 v)) -> (forall v, benign (f64 v)) ->
  Forall (fun i => facts (ti i)) l -> benign (shift_items f32 f64 l).
Proof.
  intros H32 H64. induction 1 as [|i r (Hw & _ & _) _ IH]; [exact I|]. cbn [shift_items]. unfold shift_tab at 1.
  assert (B : benign (map_entries (S (length (te (ti i)))) (N.to_nat (tw (ti i))) (fw f32 f64 (tw (ti i))) (te (ti i)))).
  { apply map_entries_benign; [destruct Hw as [-> | ->]; cbn; lia | | lia].
    intros v. unfold fw. destruct (tw (ti i) =? 4); [apply H32 | apply H64]. }
  destruct (map_entries _ _ _ _); cbn [rbind benign] in *; try contradiction; [|exact I].
  destruct (shift_items f32 f64 r); cbn [rbind benign] in *; try contradiction; exact I.
Qed.

Lemma each_trak_shift_benign : forall p kids f32 f64, moov_check p = Ok kids ->
  (forall v, benign (f32 v)) -> (forall v, benign (f64 v)) -> benign (each_trak kids (shift_table f32 f64)).
Proof.
  intros p kids f32 f64 E H32 H64. pose proof (moov_core p) as C. rewrite E in C.
  destruct C as (l & Tl & Hok & _).
  pose proof (shift_items_benign f32 f64 l H32 H64 (tops_facts _ _ _ Tl)) as B.
  pose proof (tops_shift_err f32 f64 _ _ _ Tl) as SE.
  destruct (shift_items f32 f64 l) as [l'|x| | |] eqn:SI; cbn [benign] in B; try contradiction.
  - destruct (tops_shift_ok f32 f64 _ _ _ Tl Hok l' SI) as (k' & u & -> & _). exact I.
  - cbn [same_err] in SE. destruct (each_trak kids (shift_table f32 f64)) as [[? ?]| | | |]; try contradiction; exact I.
Qed.

Lemma each_trak_shift_no_panic : forall p kids d, moov_check p = Ok kids ->
  forall n, each_trak kids (shift_table (shift_entry 32 d) (shift_entry 64 d)) <> Panic n.
Proof.
  intros p kids d E n H.
  pose proof (each_trak_shift_benign p kids _ _ E (shift_entry_benign 32 d) (shift_entry_benign 64 d)) as B.
  rewrite H in B. exact B.
Qed.
Lemma each_trak_shift_fuel_enough : forall p kids d, moov_check p = Ok kids ->
  each_trak kids (shift_table (shift_entry 32 d) (shift_entry 64 d)) <> OutOfFuel.
Proof.
  intros p kids d E H.
  pose proof (each_trak_shift_benign p kids _ _ E (shift_entry_benign 32 d) (shift_entry_benign 64 d)) as B.
  rewrite H in B. exact B.
Qed.

(* ------------------------------------------------------------------ ftyp: the parsed fields re-encode to the payload *)
Lemma chunks4_spec : forall fuel l, (length l <= fuel)%nat ->
  exists tail, l = concat (chunks4 fuel l) ++ tail /\ (length tail < 4)%nat /\ Forall (fun b => length b = 4%nat) (chunks4 fuel l).
Proof.
  induction fuel as [|fuel IH]; intros l L.
  - destruct l; [|cbn [length] in L; lia]. exists []. repeat split; [cbn; lia | constructor].
  - cbn [chunks4]. destruct (Nat.ltb_spec (length l) 4) as [L4|L4].
    + exists l. repeat split; [exact L4 | constructor].
    + destruct (IH (skipn 4 l)) as (tail & E & Lt & F); [rewrite skipn_length; lia|].
      exists tail. cbn [concat]. rewrite <- app_assoc, <- E, firstn_skipn. repeat split; [exact Lt|].
      constructor; [apply firstn_length_le; lia | exact F].
Qed.

Lemma ftyp_identical : forall p major brands, parse_ftyp p = Ok (major, brands) ->
  (8 <= length p)%nat /\
  p = major ++ n2be 4 (be2n (firstn 4 (skipn 4 p))) ++ skipn 8 p /\
  (exists tail, skipn 8 p = concat brands ++ tail /\ (length tail < 4)%nat) /\
  length major = 4%nat /\ Forall (fun b => length b = 4%nat) brands.
Proof.
  intros p major brands. unfold parse_ftyp.
  destruct (Nat.ltb_spec (length p) 4) as [|L4]; [discriminate|]. destruct (Nat.ltb_spec (length p) 8) as [|L8]; [discriminate|].
  intros HH. injection HH as <- <-.
  destruct (chunks4_spec (length p) (skipn 8 p)) as (tail & E & Lt & F); [rewrite skipn_length; lia|].
  split; [exact L8|]. split; [|split; [exists tail; split; assumption | split; [exact (firstn_length_le p L4) | exact F]]].
  rewrite n2be4_be2n by (apply firstn_length_le; rewrite skipn_length; lia).
  rewrite <- (firstn_skipn 4 p) at 1. f_equal. rewrite <- (firstn_skipn 4 (skipn 4 p)) at 1. f_equal.
  rewrite skipn_add. reflexivity.
Qed.

(* ================================================================== non-vacuity *)
Definition ex_trak_with (tbl : bytes) : bytes := ex_box t_trak (ex_box t_mdia (ex_box t_minf (ex_box t_stbl tbl))).
Definition ex_moov : bytes :=
  ex_trak_with (ex_box t_stco ([x00;x00;x00;x00] ++ n2be 4 2 ++ n2be 4 3 ++ n2be 4 4294967292))
  ++ ex_box t_free [x01; x02; x03]
  ++ ex_trak_with (ex_box t_co64 ([x00;x00;x00;x00] ++ n2be 4 2 ++ n2be 8 5 ++ n2be 8 18446744073709551612)).

Example shift_spec_sat :
  blen ex_moov < 4294967296 /\ is_ok (moov_check ex_moov) = true /\
  co_tables ex_moov = Some [(4, [3; 4294967292]); (8, [5; 18446744073709551612])] /\
  shift_all 3 [(4, [3; 4294967292]); (8, [5; 18446744073709551612])] =
    Some [(4, [6; 4294967295]); (8, [8; 18446744073709551615])] /\
  shift_all 4 [(4, [3; 4294967292]); (8, [5; 18446744073709551612])] = None /\
  shift_all (-4) [(4, [3; 4294967292]); (8, [5; 18446744073709551612])] = None.
Proof. vm_compute. repeat split; reflexivity. Qed.

Example ftyp_identical_sat :
  parse_ftyp [x69;x73;x6f;x6d; x00;x00;x02;x00; x69;x73;x6f;x6d; x6d;x70;x34;x31; xaa]
  = Ok ([x69;x73;x6f;x6d], [[x69;x73;x6f;x6d]; [x6d;x70;x34;x31]]).
Proof. reflexivity. Qed.
