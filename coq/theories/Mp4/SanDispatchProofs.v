(* [step] of Mp4/San.v is [step_arms] of Mp4/SanDispatch.v (dispatch by the arm list REGENERATED from mp4san/src/lib.rs) over
   every reader and every reader state; hence so are the loop and the whole sanitizer programme. *)
From Coq Require Import List NArith ZArith Bool Lia.
From Coq.Strings Require Import Byte.
From MS Require Import Base.Bytes Base.Outcome Base.Prog Mp4.Header Mp4.Box Mp4.San Gen.Consts Gen.Mp4Dispatch Mp4.SanDispatch.
Import ListNotations.
Open Scope N_scope.

Lemma run_pbind_ext {A B} (R : reader) (p : prog A) (f g : A -> prog B) :
  (forall a s, run R (f a) s = run R (g a) s) -> forall s, run R (pbind p f) s = run R (pbind p g) s.
Proof.
  intros H. induction p as [r | o k IH]; intros s.
  - destruct r; cbn [pbind]; try reflexivity. apply H.
  - cbn [pbind run]. destruct (rstep R o s) as [a s']. apply IH.
Qed.

(* the body chosen by the regenerated arm list is the body Mp4/San.v's chain of tests chooses *)
Lemma body_is_dispatch cfg s start h :
  arm_body (arm_index DISPATCH_SRC h (ftyp_seen s) 0) cfg s start h =
  (if is_type h t_free || is_type h t_skip then filler_body s start h
   else if is_type h t_ftyp then ftyp_body s h
   else match st_ftyp s with
        | None => Ret (EParse InvalidBoxLayout)
        | Some _ =>
            if is_type h t_mdat then mdat_body cfg s start h
            else if is_type h t_moov then moov_body cfg s start h
            else if is_type h t_meta || is_type h t_meco then filler_body s start h
            else other_body h
        end).
Proof.
  unfold DISPATCH_SRC, ftyp_seen. cbn [arm_index arm_matches existsb].
  change [x66; x72; x65; x65] with t_free. change [x73; x6b; x69; x70] with t_skip.
  change [x66; x74; x79; x70] with t_ftyp. change [x6d; x64; x61; x74] with t_mdat.
  change [x6d; x6f; x6f; x76] with t_moov. change [x6d; x65; x74; x61] with t_meta.
  change [x6d; x65; x63; x6f] with t_meco.
  destruct (is_type h t_free), (is_type h t_skip), (is_type h t_ftyp); cbn [orb arm_body]; try reflexivity;
  destruct (st_ftyp s); cbn [negb arm_body]; try reflexivity;
  destruct (is_type h t_mdat), (is_type h t_moov), (is_type h t_meta), (is_type h t_meco); cbn [orb arm_body]; reflexivity.
Qed.

Theorem step_is_dispatch (cfg : config) (s : st) (R : reader) (rs : rst R) :
  run R (step cfg s) rs = run R (step_arms cfg s) rs.
Proof.
  unfold step, step_arms. apply run_pbind_ext. intros start s1. apply run_pbind_ext. intros h s2.
  rewrite body_is_dispatch. unfold filler_body, ftyp_body, mdat_body, moov_body, other_body. reflexivity.
Qed.

(* the loop and the whole programme with the regenerated dispatch *)
Fixpoint loop_arms (fuel : nat) (cfg : config) (s : st) : prog st :=
  match fuel with
  | O => Ret OutOfFuel
  | S fuel' =>
      e <~ do_fill_empty ;;
      if e then Ret (Ok s) else s' <~ step_arms cfg s ;; loop_arms fuel' cfg s'
  end.

Lemma run_pbind_ext2 {A B} (R : reader) (p q : prog A) (f g : A -> prog B) :
  (forall s, run R p s = run R q s) -> (forall a s, run R (f a) s = run R (g a) s) ->
  forall s, run R (pbind p f) s = run R (pbind q g) s.
Proof.
  intros Hp Hf s. rewrite (run_pbind_ext R p f g Hf s). clear Hf f.
  (* run of a bind is determined by the run of its first part *)
  assert (G : forall (p : prog A) s, run R (pbind p g) s =
              let '(r, s') := run R p s in
              match r with Ok a => run R (g a) s' | EParse e => (EParse e, s') | EIo e => (EIo e, s')
                         | Panic k => (Panic k, s') | OutOfFuel => (OutOfFuel, s') end).
  { clear. induction p as [r | o k IH]; intros s.
    - destruct r; reflexivity.
    - cbn [pbind run]. destruct (rstep R o s) as [a s']. apply IH. }
  rewrite (G p s), (G q s), (Hp s). reflexivity.
Qed.

Theorem loop_is_dispatch (cfg : config) (R : reader) : forall fuel s rs,
  run R (loop fuel cfg s) rs = run R (loop_arms fuel cfg s) rs.
Proof.
  induction fuel as [|fuel IH]; intros s rs; cbn [loop loop_arms]; [reflexivity|].
  apply run_pbind_ext. intros e s1. destruct e; [reflexivity|].
  apply run_pbind_ext2; [intros s2; apply step_is_dispatch | intros s' s2; apply IH].
Qed.

Definition sanitize_prog_arms (cfg : config) (fuel : nat) : prog out :=
  s <~ loop_arms fuel cfg st0 ;; _ <~ check_end ;; finish s.

Theorem sanitize_is_dispatch (cfg : config) (fuel : nat) (R : reader) (rs : rst R) :
  run R (sanitize_prog cfg fuel) rs = run R (sanitize_prog_arms cfg fuel) rs.
Proof.
  unfold sanitize_prog, sanitize_prog_arms.
  apply run_pbind_ext2; [intros s; apply loop_is_dispatch | reflexivity].
Qed.

(* the model function of every MP4 theorem, with the dispatch regenerated from the source *)
Corollary mp4_sanitize_is_dispatch (cfg : config) (lenient : bool) (max_seek : N) (inp : input) (fuel : nat) :
  mp4_sanitize cfg lenient max_seek inp fuel = fst (run (cursor inp lenient max_seek) (sanitize_prog_arms cfg fuel) 0).
Proof. unfold mp4_sanitize. rewrite sanitize_is_dispatch. reflexivity. Qed.

(* the regenerated list is the one the model was written for (a changed source list fails HERE, with the new list in the message) *)
Lemma dispatch_list_as_modelled :
  DISPATCH_SRC = [ANames [t_free; t_skip]; ANames [t_ftyp]; AGuardNoFtyp; ANames [t_mdat]; ANames [t_moov];
                  ANames [t_meta; t_meco]; AAny].
Proof. reflexivity. Qed.
