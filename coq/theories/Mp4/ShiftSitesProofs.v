(* The chunk-offset rewrite loops, tied to the source by regeneration.  Gen/Mp4ShiftSites.v (tools/gen_consts.py --shift-sites) says,
   for each of the two loops of mp4san/src/lib.rs, which table type it handles and how wide its entries are (the BoundedArray entry
   type of StcoBox / Co64Box); the translator only accepts loops that hand entry and displacement to checked_add_signed UNCHANGED
   (stco: the i32 itself, co64: `.into()`) and write the result back.  Here: the model parses each table type with the entry size the
   source declares for it, and shifts entries of n bytes with the kernel instantiated at 8 n bits. *)
From Coq Require Import List NArith ZArith Bool.
From Coq.Strings Require Import Byte.
From MS Require Import Base.Bytes Base.Outcome Mp4.Header Mp4.Box Gen.Mp4ShiftSites.
Import ListNotations.
Open Scope N_scope.

Definition entry_bytes_src (t : bytes) : N :=
  match find (fun p : bytes * N => if list_eq_dec Byte.byte_eq_dec (fst p) t then true else false) SHIFT_SITES_SRC with
  | Some (_, bits) => bits / 8
  | None => 0
  end.

(* StblBox::co_mut: each table type is parsed with the entry size the source declares for it *)
Lemma stbl_co_widths_are_src {A} (kids : list node) (g : node -> res (node * A)) :
  stbl_co kids g =
  (let have_stco := existsb (node_is t_stco) kids in
   let have_co64 := existsb (node_is t_co64) kids in
   if have_stco && have_co64 then EParse InvalidBoxLayout
   else if have_stco then with_one t_stco kids (fun n => n' <- force_table (entry_bytes_src t_stco) n ;; g n')
   else with_one t_co64 kids (fun n => n' <- force_table (entry_bytes_src t_co64) n ;; g n')).
Proof. reflexivity. Qed.

(* the in-place rewrite picks the 32-bit kernel exactly for the entries the source declares as u32, the 64-bit one for u64 *)
Lemma shift_table_widths_are_src (f32 f64 : N -> res N) (h : header) (w c : N) (e : bytes) :
  shift_table f32 f64 (Tab h w c e) =
  (e' <- map_entries (S (length e)) (N.to_nat w) (if w =? entry_bytes_src t_stco then f32 else f64) e ;; Ok (Tab h w c e', tt)).
Proof. reflexivity. Qed.

Lemma shift_sites_as_modelled :
  SHIFT_SITES_SRC = [(t_stco, 32); (t_co64, 64)] /\ DISPLACEMENT_BITS_SRC = 32.
Proof. split; reflexivity. Qed.
