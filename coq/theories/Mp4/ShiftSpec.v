(* Specification vocabulary for C01: the exact shift of all chunk-offset tables of a moov payload.
   Written from the property text (every entry e becomes e + delta, exactly, provided 0 <= e + delta < 2^width);
   uses Spec.shift and Spec.all_some only. *)
From Coq Require Import List NArith ZArith.
From MS Require Import Base.Bytes Mp4.Spec.
Import ListNotations.
Open Scope N_scope.

(* one table (entry width in bytes, entries): Some of the shifted table iff every entry stays representable *)
Definition shift_table_spec (d : Z) (t : N * list N) : option (N * list N) :=
  match all_some (map (shift (fst t) d) (snd t)) with
  | Some es => Some (fst t, es)
  | None => None
  end.
(* all tables, in order: None iff some entry of some table would leave its field *)
Definition shift_all (d : Z) (ts : list (N * list N)) : option (list (N * list N)) :=
  all_some (map (shift_table_spec d) ts).

(* the same in exact integers: tables in the same order with the same widths, every new entry = old entry + d *)
Definition shifted_by (d : Z) (ts ts' : list (N * list N)) : Prop :=
  Forall2 (fun t t' => fst t' = fst t /\ Forall2 (fun e e' => Z.of_N e' = (Z.of_N e + d)%Z) (snd t) (snd t')) ts ts'.
