(* Vocabulary in which property C16 (a,b) is stated; written from the property text and ISO/IEC 14496-12 4.2
   (size(32) type(32) [largesize(64) if size==1] [usertype(128) if type=='uuid']), not from the code. *)
From Coq Require Import List NArith.
From MS Require Import Base.Bytes Base.Outcome Mp4.Header.
Open Scope N_scope.

(* length of the compact (32-bit size) and of the 64-bit ("largesize") header of a box of type t *)
Definition short_len (t : box_type) : N := match t with Uuid _ => 8 + 16 | FourCC _ => 8 end.
Definition long_len (t : box_type) : N := match t with Uuid _ => 8 + 8 + 16 | FourCC _ => 8 + 8 end.
(* the header value uses the 64-bit form *)
Definition is_ext (h : header) : bool := match hsize h with Ext _ => true | _ => false end.
(* the 32-bit size field as it appears in the serialised header: first four bytes, big-endian *)
Definition size_field32 (h : header) : N := be2n (firstn 4 (hdr_put h)).
(* the 64-bit largesize field as it appears in the serialised header: bytes 8..15, big-endian *)
Definition size_field64 (h : header) : N := be2n (firstn 8 (skipn 8 (hdr_put h))).
