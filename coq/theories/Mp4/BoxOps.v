(* Partial accessor chains on the lazily parsed moov tree, as a test harness drives them through the public API
   (MoovBox::parse, traks(), TrakBox::mdia_mut, MdiaBox::minf_mut, MinfBox::stbl_mut, StblBox::co_mut).
   Definitions only; used by the C16 (c) correspondence batch (kind `lazy`).  Model of:
     for (j, t) in moov.traks().enumerate() { let t = t?; if j == i { <first k accessors of co_mut> ; break } } *)
From Coq Require Import List NArith Bool.
From Coq.Strings Require Import Byte.
From MS Require Import Base.Bytes Base.Outcome Mp4.Header Mp4.Box.
Import ListNotations.
Open Scope N_scope.

Definition keep (ks : list node) : res (list node * unit) := Ok (ks, tt).
Definition count_unit (n : node) : res (node * unit) := '(n', _) <- tab_count n ;; Ok (n', tt).

(* the first k accessors of TrakBox::co_mut = mdia_mut()?.minf_mut()?.stbl_mut()?.co_mut(), on the children of a parsed trak *)
Definition chain_prefix (k : nat) (trak_kids : list node) : res (list node * unit) :=
  match k with
  | 0%nat => keep trak_kids
  | 1%nat => in_child t_mdia trak_kids keep
  | 2%nat => in_child t_mdia trak_kids (fun mk => in_child t_minf mk keep)
  | 3%nat => in_child t_mdia trak_kids (fun mk => in_child t_minf mk (fun nk => in_child t_stbl nk keep))
  | _ => trak_co trak_kids count_unit
  end.

(* MoovBox::traks() iterated up to the i-th trak: every visited trak is parsed (the iterator's next()); the first
   error stops; f runs on the children of the i-th; an index past the last trak does nothing more *)
Fixpoint nth_trak (i : nat) (kids : list node) (f : list node -> res (list node * unit)) : res (list node) :=
  match kids with
  | [] => Ok []
  | k :: r =>
      if node_is t_trak k then
        k' <- force_cont k ;;
        match i with
        | O => '(tk, _) <- f (kids_of k') ;; Ok (set_kids k' tk :: r)
        | S i' => r' <- nth_trak i' r f ;; Ok (k' :: r')
        end
      else r' <- nth_trak i r f ;; Ok (k :: r')
  end.

(* a sequence of such calls; returns the tree after the last successful call, the index of the failing call and
   its error if one fails (the model has no state for the tree after a failed call) *)
Fixpoint run_ops (ops : list (nat * nat)) (step : nat) (kids : list node) : list node * option (nat * res (list node)) :=
  match ops with
  | [] => (kids, None)
  | (i, k) :: rest =>
      match nth_trak i kids (chain_prefix k) with
      | Ok kids' => run_ops rest (S step) kids'
      | e => (kids, Some (step, e))
      end
  end.
