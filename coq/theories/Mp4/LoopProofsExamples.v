(* Non-vacuity: the hypotheses of the top-level theorems (C02, C03, C05, C09, C14) are satisfiable and the
   statements say something on concrete inputs.  Evaluated with vm_compute. *)
From Coq Require Import List NArith ZArith Bool.
From Coq.Strings Require Import Byte.
From MS Require Import Base.Bytes Base.Outcome Base.Prog Mp4.Header Mp4.Box Mp4.San Mp4.Spec Mp4.LoopProofs
  Mp4.LoopProofsSpec Mp4.LoopProofsAccept Mp4.LoopProofsConfig Mp4.SpliceSpec.
Import ListNotations.
Open Scope N_scope.

Definition cfg0 : config := {| max_metadata_size := 1073741824; cumulative_mdat_box_size := None |}.
(* ftyp(isom) ; mdat "abc" ; moov(trak/mdia/minf/stbl/stco [31, 40]) *)
Definition ex_rewrite : bytes := [x00; x00; x00; x14; x66; x74; x79; x70; x69; x73; x6f; x6d; x00; x00; x00; x00; x69; x73; x6f; x6d; x00; x00; x00; x0b; x6d; x64; x61; x74; x61; x62; x63; x00; x00; x00; x40; x6d; x6f; x6f; x76; x00; x00; x00; x38; x74; x72; x61; x6b; x00; x00; x00; x30; x6d; x64; x69; x61; x00; x00; x00; x28; x6d; x69; x6e; x66; x00; x00; x00; x20; x73; x74; x62; x6c; x00; x00; x00; x18; x73; x74; x63; x6f; x00; x00; x00; x00; x00; x00; x00; x02; x00; x00; x00; x1f; x00; x00; x00; x28].
(* the same boxes with the moov before the mdat *)
Definition ex_plain : bytes := [x00; x00; x00; x14; x66; x74; x79; x70; x69; x73; x6f; x6d; x00; x00; x00; x00; x69; x73; x6f; x6d; x00; x00; x00; x40; x6d; x6f; x6f; x76; x00; x00; x00; x38; x74; x72; x61; x6b; x00; x00; x00; x30; x6d; x64; x69; x61; x00; x00; x00; x28; x6d; x69; x6e; x66; x00; x00; x00; x20; x73; x74; x62; x6c; x00; x00; x00; x18; x73; x74; x63; x6f; x00; x00; x00; x00; x00; x00; x00; x02; x00; x00; x00; x1f; x00; x00; x00; x28; x00; x00; x00; x0b; x6d; x64; x61; x74; x61; x62; x63].
(* ex_rewrite with its last three bytes missing *)
Definition ex_trunc : bytes := [x00; x00; x00; x14; x66; x74; x79; x70; x69; x73; x6f; x6d; x00; x00; x00; x00; x69; x73; x6f; x6d; x00; x00; x00; x0b; x6d; x64; x61; x74; x61; x62; x63; x00; x00; x00; x40; x6d; x6f; x6f; x76; x00; x00; x00; x38; x74; x72; x61; x6b; x00; x00; x00; x30; x6d; x64; x69; x61; x00; x00; x00; x28; x6d; x69; x6e; x66; x00; x00; x00; x20; x73; x74; x62; x6c; x00; x00; x00; x18; x73; x74; x63; x6f; x00; x00; x00; x00; x00; x00; x00; x02; x00; x00; x00; x1f; x00].

Definition span_of (r : res out) : option (N * N) :=
  match r with Ok o => Some (s_off (o_data o), s_len (o_data o)) | _ => None end.
Definition has_md (r : res out) : option bool :=
  match r with Ok o => Some (match o_metadata o with Some _ => true | None => false end) | _ => None end.

(* C03 / C05: accepted by both readers; the span is the media run of the tiling *)
Example ex_accept_strict :
  let inp := input_of_bytes ex_rewrite in
  span_of (mp4_sanitize cfg0 false U64MAX' inp 20) = Some (20, 11) /\
  span_of (mp4_sanitize cfg0 true U64MAX' inp 20) = Some (20, 11) /\
  (match tiling None inp with Some bs => media_run bs | None => None end) = Some (20, 11) /\
  accept_spec (scfg cfg0) inp = true /\ overflow_spec cfg0 inp = false /\
  has_md (mp4_sanitize cfg0 false U64MAX' inp 20) = Some true.
Proof. vm_compute. repeat split; reflexivity. Qed.

(* C05_none_iff_moov_first: moov before mdat => no metadata, plan NoRewrite *)
Example ex_plain_none :
  let inp := input_of_bytes ex_plain in
  has_md (mp4_sanitize cfg0 false U64MAX' inp 20) = Some false /\
  (match tiling None inp with Some bs => plan_of inp bs | None => None end) = Some NoRewrite.
Proof. vm_compute. split; reflexivity. Qed.

(* C03_truncated_rejected: not tiled => rejected by both readers *)
Example ex_truncated :
  let inp := input_of_bytes ex_trunc in
  tiling None inp = None /\
  mp4_sanitize cfg0 false U64MAX' inp 20 = EParse TruncatedBox /\
  mp4_sanitize cfg0 true U64MAX' inp 20 = EParse TruncatedBox.
Proof. vm_compute. repeat split; reflexivity. Qed.

(* C14 (a): the moov payload has 56 bytes; limit 55 rejects with InvalidInput, limit 56 accepts *)
Example ex_limit :
  let inp := input_of_bytes ex_rewrite in
  let san m := mp4_sanitize {| max_metadata_size := m; cumulative_mdat_box_size := None |} false U64MAX' inp 20 in
  san 55 = EParse InvalidInput /\ is_ok (san 56) = true /\ san 56 = san 1073741824.
Proof. vm_compute. repeat split; reflexivity. Qed.

(* C14 (b): an until-EOF mdat read as a box of declared size t *)
Definition ex_eof : bytes := [x00; x00; x00; x14; x66; x74; x79; x70; x69; x73; x6f; x6d; x00; x00; x00; x00; x69; x73; x6f; x6d; x00; x00; x00; x40; x6d; x6f; x6f; x76; x00; x00; x00; x38; x74; x72; x61; x6b; x00; x00; x00; x30; x6d; x64; x69; x61; x00; x00; x00; x28; x6d; x69; x6e; x66; x00; x00; x00; x20; x73; x74; x62; x6c; x00; x00; x00; x18; x73; x74; x63; x6f; x00; x00; x00; x00; x00; x00; x00; x02; x00; x00; x00; x1f; x00; x00; x00; x28; x00; x00; x00; x00; x6d; x64; x61; x74; x61; x62; x63; x64; x65; x66; x67; x68; x69; x6a].
Example ex_cumulative :
  let inp := input_of_bytes ex_eof in
  let san c := mp4_sanitize {| max_metadata_size := 1073741824; cumulative_mdat_box_size := c |} false U64MAX' inp 20 in
  span_of (san None) = Some (84, 18) /\ span_of (san (Some 18)) = Some (84, 18) /\ is_ok (san (Some 7)) = false /\
  is_ok (san (Some 19)) = false.
Proof. vm_compute. repeat split; reflexivity. Qed.

(* C02_fixpoint / C01_toplevel: the metadata of ex_rewrite, spliced with the media span, is accepted again with no
   metadata; the stco entries 31, 40 (media at 20) became 95, 104 (media at 84): delta = 84 - 20 = 64 *)
Example ex_fixpoint :
  let inp := input_of_bytes ex_rewrite in
  match mp4_sanitize cfg0 false U64MAX' inp 20 with
  | Ok {| o_metadata := Some (md, pad); o_data := sp |} =>
      let J := splice md pad inp (s_off sp) (s_len sp) in
      (blen md + pad =? 84) && (s_off sp =? 20) &&
      match mp4_sanitize cfg0 true U64MAX' J 20 with
      | Ok {| o_metadata := None; o_data := sp2 |} => (s_off sp2 =? 84) && (s_len sp2 =? s_len sp)
      | _ => false
      end &&
      match metadata_shape (md_input md pad) with
      | Some (_, mp, _) => match co_tables mp with Some [(4, [95; 104])] => true | _ => false end
      | None => false
      end
  | _ => false
  end = true.
Proof. vm_compute. reflexivity. Qed.
