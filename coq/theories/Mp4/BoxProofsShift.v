(* The in-place rewrite of the chunk-offset entries (each_trak with shift_table) on the forced tree that moov_check
   returns: what the walk does ([tops_shift_ok] / [tops_shift_err]), which bytes change (masked_eq), and the
   entry arithmetic: the regenerated kernel checked_add_signed (through Base/AddSignedProofs.v) against
   Spec.shift, map_entries against Spec.entries. *)
From Coq Require Import List NArith ZArith Bool Lia Arith.
From Coq.Strings Require Import Byte.
From MS Require Import Base.Bytes Base.Outcome Base.AddSignedProofs Gen.Kernels Mp4.Header Mp4.HeaderProofs Mp4.Box Mp4.San Mp4.Spec Mp4.ShiftSpec
  Mp4.BoxProofsLazy Mp4.BoxProofsLib Mp4.BoxProofsParse Mp4.BoxProofsChain.
Import ListNotations.
Open Scope N_scope.
Arguments N.add : simpl never.
Arguments N.sub : simpl never.
Arguments N.mul : simpl never.
Arguments N.div : simpl never.
Arguments N.modulo : simpl never.
Arguments N.pow : simpl never.
Arguments N.eqb : simpl never.
Arguments N.ltb : simpl never.
Arguments N.leb : simpl never.


(* ------------------------------------------------------------------ the model on an already forced tree *)
Lemma in_child_at {A} t (f : list node -> res (list node * A)) a h ks b :
  count_type t a = 0%nat -> node_is t (Cont h ks) = true -> count_type t b = 0%nat ->
  in_child t (a ++ Cont h ks :: b) f = ('(ks', x) <- f ks ;; Ok (a ++ Cont h ks' :: b, x)).
Proof.
  intros Ha Hk Hb. unfold in_child. rewrite with_one_at by assumption. cbn [force_cont rbind kids_of].
  destruct (f ks) as [[ks' x]| | | |]; reflexivity.
Qed.

Lemma stbl_co_at {A} (g : node -> res (node * A)) a h w c e b :
  leaf_sel (a ++ Tab h w c e :: b) w (Tab h w c e) ->
  stbl_co (a ++ Tab h w c e :: b) g = ('(k', x) <- g (Tab h w c e) ;; Ok (a ++ k' :: b, x)).
Proof.
  intros S. unfold stbl_co. rewrite !existsb_count.
  destruct S as [(C4 & C8 & _ & Hk)|(C4 & C8 & _ & Hk)]; rewrite C4, C8; cbn [Nat.eqb negb andb].
  - rewrite count_type_mid, Hk in C4. rewrite with_one_at by (try exact Hk; lia). reflexivity.
  - rewrite count_type_mid, Hk in C8. rewrite with_one_at by (try exact Hk; lia). reflexivity.
Qed.

Section Rewrite.
  Variables f32 f64 : N -> res N.
  Definition fw (w : N) : N -> res N := if w =? 4 then f32 else f64.
  Definition shift_tab (T : tabinfo) : res tabinfo :=
    e' <- map_entries (S (length (te T))) (N.to_nat (tw T)) (fw (tw T)) (te T) ;;
    Ok {| tw := tw T; tc := tc T; te := e' |}.

  Lemma leaf_sel_replace sk a h w c e e' b : sk = a ++ Tab h w c e :: b ->
    leaf_sel sk w (Tab h w c e) -> leaf_sel (a ++ Tab h w c e' :: b) w (Tab h w c e').
  Proof.
    intros -> S. unfold leaf_sel in *.
    rewrite !(count_type_replace _ a (Tab h w c e) (Tab h w c e') b) by reflexivity. exact S.
  Qed.

  Lemma focus_shift_ok path ns T pre post : focus path ns T pre post ->
    forall T', shift_tab T = Ok T' ->
    exists ns', model_chain path ns (shift_table f32 f64) = Ok (ns', tt) /\ focus path ns' T' pre post.
  Proof.
    induction 1 as [a h w c e b Hok Sel Hc He|t path a h ks b T pre post Hok Ht Ha Hb F IH]; intros T' HT.
    - unfold shift_tab in HT. cbn [tw tc te] in HT.
      destruct (map_entries (S (length e)) (N.to_nat w) (fw w) e) as [e'| | | |] eqn:E; cbn [rbind] in HT; try discriminate.
      injection HT as <-. pose proof (map_entries_length _ _ _ _ _ E) as Le.
      exists (a ++ Tab h w c e' :: b). split.
      + cbn [model_chain]. rewrite (stbl_co_at _ a h w c e b Sel). cbn [shift_table]. fold (fw w). rewrite E. reflexivity.
      + apply focus_tab; try assumption.
        * eapply lst_ok_replace; [| |exact Hok]; [reflexivity|]. cbn [payload]. rewrite !blen_app. unfold blen. rewrite Le. reflexivity.
        * eapply leaf_sel_replace; [reflexivity | exact Sel].
        * unfold blen in *. rewrite Le. exact He.
    - destruct (IH T' HT) as (ks' & EM & F').
      exists (a ++ Cont h ks' :: b). split.
      + cbn [model_chain]. rewrite in_child_at by assumption. rewrite EM. reflexivity.
      + apply focus_step; try assumption.
        eapply lst_ok_replace; [| |exact Hok]; [reflexivity|]. cbn [payload].
        rewrite (focus_put _ _ _ _ _ F), (focus_put _ _ _ _ _ F'), !blen_app.
        unfold shift_tab in HT.
        destruct (map_entries (S (length (te T))) (N.to_nat (tw T)) (fw (tw T)) (te T)) as [e'| | | |] eqn:E; cbn [rbind] in HT; try discriminate.
        injection HT as <-. cbn [te]. unfold blen. rewrite (map_entries_length _ _ _ _ _ E). reflexivity.
  Qed.

  (* an error of the entry rewrite is what the whole walk returns *)
  Definition same_err {A B} (r : res A) (r' : res B) : Prop :=
    match r, r' with
    | Ok _, _ => True
    | EParse x, EParse y => x = y
    | EIo x, EIo y => x = y
    | Panic x, Panic y => x = y
    | OutOfFuel, OutOfFuel => True
    | _, _ => False
    end.

  Lemma focus_shift_err path ns T pre post : focus path ns T pre post ->
    same_err (shift_tab T) (model_chain path ns (shift_table f32 f64)).
  Proof.
    induction 1 as [a h w c e b Hok Sel Hc He|t path a h ks b T pre post Hok Ht Ha Hb F IH].
    - unfold shift_tab. cbn [tw tc te model_chain]. rewrite (stbl_co_at _ a h w c e b Sel). cbn [shift_table]. fold (fw w).
      destruct (map_entries (S (length e)) (N.to_nat w) (fw w) e); cbn [rbind same_err]; reflexivity.
    - cbn [model_chain]. rewrite in_child_at by assumption.
      destruct (shift_tab T); cbn [same_err] in *; [exact I| | | |];
        destruct (model_chain path ks (shift_table f32 f64)) as [[? ?]| | | |]; cbn [rbind]; try contradiction; assumption.
  Qed.

  Fixpoint shift_items (l : list titem) : res (list titem) :=
    match l with
    | [] => Ok []
    | i :: r => T' <- shift_tab (ti i) ;; r' <- shift_items r ;; Ok ({| ti := T'; to := to i |} :: r')
    end.

  Lemma shift_tab_len T T' : shift_tab T = Ok T' -> tw T' = tw T /\ tc T' = tc T /\ length (te T') = length (te T).
  Proof.
    unfold shift_tab.
    destruct (map_entries (S (length (te T))) (N.to_nat (tw T)) (fw (tw T)) (te T)) as [e'| | | |] eqn:E; cbn [rbind]; try discriminate.
    intros H. injection H as <-. cbn [tw tc te]. repeat split. eapply map_entries_length. exact E.
  Qed.

  Lemma shift_items_reg l l' : shift_items l = Ok l' -> map reg l' = map reg l.
  Proof.
    revert l'. induction l as [|i r IH]; intros l' H; cbn [shift_items] in H.
    - injection H as <-. reflexivity.
    - destruct (shift_tab (ti i)) as [T'| | | |] eqn:E; cbn [rbind] in H; try discriminate.
      destruct (shift_items r) as [r'| | | |]; cbn [rbind] in H; try discriminate. injection H as <-.
      destruct (shift_tab_len _ _ E) as (W & C & _). cbn [map]. rewrite (IH r' eq_refl). f_equal.
      unfold reg. cbn [ti to]. rewrite W, C. reflexivity.
  Qed.

  (* ---------------------------------------------------------------- byte equality outside the tables *)
  Lemma meq_same rs : forall x i a b, masked_eq_from rs i (x ++ a) (x ++ b) = masked_eq_from rs (i + blen x) a b.
  Proof.
    induction x as [|y x IH]; intros i a b.
    - cbn [app]. rewrite blen_nil, N.add_0_r. reflexivity.
    - cbn [app masked_eq_from]. destruct (Byte.byte_eq_dec y y); [|congruence].
      rewrite orb_true_r. cbn [andb]. rewrite IH, blen_cons. f_equal. lia.
  Qed.

  Lemma meq_region rs : forall x y i a b, length x = length y ->
    (forall j, i <= j < i + blen x -> in_region rs j = true) ->
    masked_eq_from rs i (x ++ a) (y ++ b) = masked_eq_from rs (i + blen x) a b.
  Proof.
    induction x as [|x0 x IH]; intros y i a b L R; destruct y as [|y0 y]; try discriminate.
    - cbn [app]. rewrite blen_nil, N.add_0_r. reflexivity.
    - cbn [app masked_eq_from]. rewrite blen_cons in *. rewrite (R i) by lia. cbn [orb andb].
      rewrite IH; [f_equal; lia | cbn [length] in L; lia |]. intros j Hj. apply R. lia.
  Qed.

  Lemma in_region_of rs (i : titem) j : In (reg i) rs -> blen (te (ti i)) = tw (ti i) * tc (ti i) ->
    to i <= j < to i + blen (te (ti i)) -> in_region rs j = true.
  Proof.
    intros Hin He Hj. unfold in_region. apply existsb_exists. exists (reg i). split; [exact Hin|].
    unfold reg. rewrite He in Hj. apply andb_true_intro. split; [apply N.leb_le | apply N.ltb_lt]; lia.
  Qed.

  Lemma lst_ok_head_replace k k' r r' : node_hdr k' = node_hdr k -> blen (payload k') = blen (payload k) ->
    length r' = length r -> lst_ok (k :: r) -> lst_ok r' -> lst_ok (k' :: r').
  Proof.
    intros Hh Hp Hl (W & Sz & _) Hr. cbn [lst_ok]. rewrite Hh, Hp. split; [exact W|]. split; [|exact Hr].
    destruct Sz as [Sz|[Sz ->]]; [left; exact Sz | right; split; [exact Sz|]].
    destruct r'; [reflexivity | discriminate].
  Qed.

  Lemma tops_shift_ok off ns l : tops off ns l -> lst_ok ns -> forall l', shift_items l = Ok l' ->
    exists ns' u, each_trak ns (shift_table f32 f64) = Ok (ns', u) /\ tops off ns' l' /\ lst_ok ns' /\
                  length ns' = length ns /\ blen (put_nodes ns') = blen (put_nodes ns) /\
                  (forall rs, incl (map reg l) rs -> masked_eq_from rs off (put_nodes ns) (put_nodes ns') = true).
  Proof.
    induction 1 as [off|off k r l Hk _ IH|off h tk r l T pre post Hk F _ IH]; intros Hok l' HS.
    - cbn [shift_items] in HS. injection HS as <-. exists [], [].
      refine (conj eq_refl (conj _ (conj I (conj eq_refl (conj eq_refl _))))); [constructor | reflexivity].
    - destruct (IH (lst_ok_tail _ _ Hok) l' HS) as (r' & u & ET & Tl & Okr & Ll & Lr & M).
      exists (k :: r'), u. cbn [each_trak]. rewrite Hk, ET. cbn [rbind].
      refine (conj eq_refl (conj _ (conj _ (conj _ (conj _ _))))).
      + apply tops_skip; assumption.
      + eapply lst_ok_head_replace; try eassumption; reflexivity.
      + cbn [length]. rewrite Ll. reflexivity.
      + rewrite !put_nodes_cons, !blen_app, Lr. reflexivity.
      + intros rs I. rewrite !put_nodes_cons, meq_same. apply M. exact I.
    - cbn [shift_items ti to] in HS.
      destruct (shift_tab T) as [T'| | | |] eqn:ETab; cbn [rbind] in HS; try discriminate.
      destruct (shift_items l) as [l0| | | |] eqn:EI; cbn [rbind] in HS; try discriminate. injection HS as <-.
      destruct (IH (lst_ok_tail _ _ Hok) l0 eq_refl) as (r' & u & ET & Tl & Okr & Ll & Lr & M).
      destruct (focus_shift_ok _ _ _ _ _ F T' ETab) as (tk' & EM & F').
      destruct (shift_tab_len _ _ ETab) as (W & C & Le).
      pose proof (focus_put _ _ _ _ _ F) as P. pose proof (focus_put _ _ _ _ _ F') as P'.
      assert (Lk : blen (put_nodes tk') = blen (put_nodes tk)).
      { rewrite P, P', !blen_app. unfold blen. rewrite Le. reflexivity. }
      exists (Cont h tk' :: r'), (tt :: u). cbn [each_trak]. rewrite Hk. cbn [force_cont rbind kids_of].
      rewrite trak_co_chain. change [t_mdia; t_minf; t_stbl] with path3. rewrite EM. cbn [rbind]. rewrite ET. cbn [rbind set_kids].
      refine (conj eq_refl (conj _ (conj _ (conj _ (conj _ _))))).
      + eapply tops_trak; [exact Hk | exact F' |]. rewrite put_node_cont, blen_app, Lk, <- blen_app, <- put_node_cont. exact Tl.
      + eapply lst_ok_head_replace; try eassumption; [reflexivity|]. cbn [payload]. exact Lk.
      + cbn [length]. rewrite Ll. reflexivity.
      + rewrite !put_nodes_cons, !blen_app, !put_node_cont, !blen_app, Lk, Lr. reflexivity.
      + intros rs I. rewrite !put_nodes_cons, !put_node_cont, P, P'. rewrite <- !app_assoc.
        rewrite meq_same, meq_same.
        destruct (focus_facts _ _ _ _ _ F) as (_ & _ & He).
        rewrite (meq_region rs (te T) (te T')); [| symmetry; exact Le |].
        * rewrite meq_same.
          match goal with |- masked_eq_from rs ?i _ _ = true => replace i with (off + blen (put_node (Cont h tk))) end.
          2:{ rewrite put_node_cont, P, !blen_app. lia. }
          apply M. intros x Hx. apply I. right. exact Hx.
        * intros j Hj.
          apply (in_region_of rs {| ti := T; to := off + blen (hdr_put h) + blen pre |} j); [apply I; left; reflexivity | exact He | exact Hj].
  Qed.

  Lemma tops_shift_err off ns l : tops off ns l -> same_err (shift_items l) (each_trak ns (shift_table f32 f64)).
  Proof.
    induction 1 as [off|off k r l Hk _ IH|off h tk r l T pre post Hk F _ IH].
    - exact I.
    - cbn [each_trak]. rewrite Hk.
      destruct (shift_items l); cbn [same_err] in *; [exact I| | | |];
        destruct (each_trak r (shift_table f32 f64)) as [[? ?]| | | |]; cbn [rbind]; try contradiction; assumption.
    - cbn [each_trak shift_items ti]. rewrite Hk. cbn [force_cont rbind kids_of].
      rewrite trak_co_chain. change [t_mdia; t_minf; t_stbl] with path3.
      pose proof (focus_shift_err _ _ _ _ _ F) as FE.
      destruct (shift_tab T) as [T'| | | |] eqn:ETab; cbn [rbind same_err] in *.
      + destruct (focus_shift_ok _ _ _ _ _ F T' ETab) as (tk' & EM & _). rewrite EM. cbn [rbind].
        destruct (shift_items l); cbn [rbind same_err] in *; [exact I| | | |];
          destruct (each_trak r (shift_table f32 f64)) as [[? ?]| | | |]; cbn [rbind]; try contradiction; assumption.
      + destruct (model_chain path3 tk (shift_table f32 f64)) as [[? ?]| | | |]; cbn [rbind]; try contradiction; assumption.
      + destruct (model_chain path3 tk (shift_table f32 f64)) as [[? ?]| | | |]; cbn [rbind]; try contradiction; assumption.
      + destruct (model_chain path3 tk (shift_table f32 f64)) as [[? ?]| | | |]; cbn [rbind]; try contradiction; assumption.
      + destruct (model_chain path3 tk (shift_table f32 f64)) as [[? ?]| | | |]; cbn [rbind]; try contradiction; assumption.
  Qed.
End Rewrite.


(* ------------------------------------------------------------------ entries of a table, read from its own bytes *)
Definition vals (w c : N) (e : bytes) : list N := entries e (w, 0, c).

Lemma entries_occ p w o c e : occ p o e -> blen e = w * c -> entries p (w, o, c) = vals w c e.
Proof.
  intros Ho He. unfold vals, entries. apply map_ext_in. intros i Hi. apply in_seq in Hi. f_equal.
  rewrite (occ_slice p o e (w * N.of_nat i) w Ho) by nia. rewrite N.add_0_l. reflexivity.
Qed.

Lemma vals_succ w n e :
  vals w (N.of_nat (S n)) e = be2n (firstn (N.to_nat w) e) :: vals w (N.of_nat n) (skipn (N.to_nat w) e).
Proof.
  unfold vals, entries. rewrite !Nat2N.id. cbn [seq map]. f_equal.
  - replace (0 + w * N.of_nat 0) with 0 by lia. reflexivity.
  - rewrite <- seq_shift, map_map. apply map_ext. intros i. f_equal. unfold slice. rewrite skipn_add.
    f_equal. f_equal. lia.
Qed.

Lemma vals_zero w e : vals w 0 e = [].
Proof. reflexivity. Qed.

Lemma vals_length w c e : length (vals w c e) = N.to_nat c.
Proof. unfold vals, entries. rewrite map_length, seq_length. reflexivity. Qed.

Lemma be2n_slice_lt e x w : be2n (slice e x w) < 256 ^ w.
Proof.
  pose proof (be2n_lt (slice e x w)) as B. pose proof (slice_length_le e x w) as L. unfold blen in L.
  eapply N.lt_le_trans; [exact B|]. apply N.pow_le_mono_r; lia.
Qed.

Lemma vals_lt w c e : Forall (fun v => v < 256 ^ w) (vals w c e).
Proof. unfold vals, entries. apply Forall_forall. intros v Hv. apply in_map_iff in Hv. destruct Hv as (i & <- & _). apply be2n_slice_lt. Qed.

Fixpoint map_res (f : N -> res N) (l : list N) : res (list N) :=
  match l with
  | [] => Ok []
  | v :: r => v' <- f v ;; r' <- map_res f r ;; Ok (v' :: r')
  end.
Definition unvals (w : nat) (vs : list N) : bytes := flat_map (n2be w) vs.

Lemma map_entries_eq f w : 0 < w -> forall n e fuel, blen e = w * N.of_nat n -> (n < fuel)%nat ->
  map_entries fuel (N.to_nat w) f e = (vs <- map_res f (vals w (N.of_nat n) e) ;; Ok (unvals (N.to_nat w) vs)).
Proof.
  intros Hw. induction n as [|n IH]; intros e fuel He Hf; (destruct fuel as [|fuel]; [lia|]); cbn [map_entries].
  - assert (e = []) by (destruct e; [reflexivity | rewrite blen_cons in He; lia]). subst e.
    destruct (Nat.ltb_spec (@length byte []) (N.to_nat w)) as [_|L]; [reflexivity | cbn [length] in L; lia].
  - destruct (Nat.ltb_spec (length e) (N.to_nat w)) as [L|L]; [unfold blen in He; nia|].
    rewrite vals_succ. cbn [map_res].
    destruct (f (be2n (firstn (N.to_nat w) e))) as [v| | | |]; cbn [rbind]; try reflexivity.
    rewrite (IH (skipn (N.to_nat w) e) fuel).
    + destruct (map_res f (vals w (N.of_nat n) (skipn (N.to_nat w) e))); reflexivity.
    + unfold blen in *. rewrite skipn_length. nia.
    + lia.
Qed.

Lemma vals_unvals w : 0 < w -> forall vs, Forall (fun v => v < 256 ^ w) vs ->
  vals w (N.of_nat (length vs)) (unvals (N.to_nat w) vs) = vs.
Proof.
  intros Hw. induction vs as [|v r IH]; intros F; [reflexivity|].
  inversion F as [|? ? Hv Hr]; subst. cbn [length]. rewrite vals_succ. unfold unvals. cbn [flat_map].
  rewrite (firstn_app_len _ _ _ (length_n2be _ v)), (skipn_app_len _ _ _ (length_n2be _ v)).
  rewrite be2n_n2be by (rewrite N2Nat.id; exact Hv). f_equal. apply IH. exact Hr.
Qed.

(* ------------------------------------------------------------------ the regenerated kernel against Spec.shift *)
Lemma shift_entry_spec w d v : (w = 4 \/ w = 8) -> v < 256 ^ w -> (- 2 ^ 31 <= d < 2 ^ 31)%Z ->
  fw (shift_entry 32 d) (shift_entry 64 d) w v =
  match shift w d v with Some v' => Ok v' | None => EParse InvalidInput end.
Proof.
  intros Hw Hv Hd. change (2 ^ 31)%Z with 2147483648%Z in Hd.
  destruct Hw as [-> | ->]; unfold fw.
  - change (4 =? 4) with true. cbv iota. unfold shift_entry, shift. change (256 ^ 4) with 4294967296 in Hv.
    rewrite checked_add_signed_exact;
      [| lia | change (2 ^ 32)%Z with 4294967296%Z; lia | change (2 ^ (32 - 1))%Z with 2147483648%Z; lia].
    unfold exact_sum. change (8 * Z.of_N 4)%Z with 32%Z.
    destruct ((0 <=? Z.of_N v + d)%Z && (Z.of_N v + d <? 2 ^ 32)%Z); reflexivity.
  - change (8 =? 4) with false. cbv iota. unfold shift_entry, shift. change (256 ^ 8) with 18446744073709551616 in Hv.
    rewrite checked_add_signed_exact;
      [| lia | change (2 ^ 64)%Z with 18446744073709551616%Z; lia | change (2 ^ (64 - 1))%Z with 9223372036854775808%Z; lia].
    unfold exact_sum. change (8 * Z.of_N 8)%Z with 64%Z.
    destruct ((0 <=? Z.of_N v + d)%Z && (Z.of_N v + d <? 2 ^ 64)%Z); reflexivity.
Qed.

Lemma shift_lt w d v v' : (w = 4 \/ w = 8) -> shift w d v = Some v' -> v' < 256 ^ w.
Proof.
  intros Hw. unfold shift. destruct ((0 <=? Z.of_N v + d)%Z && (Z.of_N v + d <? 2 ^ (8 * Z.of_N w))%Z) eqn:E; [|discriminate].
  intros H. injection H as <-. apply andb_prop in E. destruct E as [E1 E2]. apply Z.leb_le in E1. apply Z.ltb_lt in E2.
  destruct Hw as [-> | ->].
  - change (8 * Z.of_N 4)%Z with 32%Z in E2. change (2 ^ 32)%Z with 4294967296%Z in E2. change (256 ^ 4) with 4294967296. lia.
  - change (8 * Z.of_N 8)%Z with 64%Z in E2. change (2 ^ 64)%Z with 18446744073709551616%Z in E2.
    change (256 ^ 8) with 18446744073709551616. lia.
Qed.

Lemma map_res_shift w d : (w = 4 \/ w = 8) -> (- 2 ^ 31 <= d < 2 ^ 31)%Z ->
  forall l, Forall (fun v => v < 256 ^ w) l ->
  map_res (fw (shift_entry 32 d) (shift_entry 64 d) w) l =
  match all_some (map (shift w d) l) with Some vs => Ok vs | None => EParse InvalidInput end.
Proof.
  intros Hw Hd. induction l as [|v r IH]; intros F; [reflexivity|].
  inversion F as [|? ? Hv Hr]; subst. cbn [map_res map all_some]. rewrite (shift_entry_spec w d v Hw Hv Hd).
  destruct (shift w d v); cbn [rbind]; [|reflexivity]. rewrite (IH Hr).
  destruct (all_some (map (shift w d) r)); reflexivity.
Qed.

Lemma all_some_inv {A B} (f : A -> option B) : forall l r, all_some (map f l) = Some r ->
  length r = length l /\ forall y, In y r -> exists x, In x l /\ f x = Some y.
Proof.
  induction l as [|x l IH]; intros r H; cbn [map all_some] in H.
  - injection H as <-. split; [reflexivity | intros y []].
  - destruct (f x) as [y0|] eqn:E; [|discriminate]. destruct (all_some (map f l)) as [r0|] eqn:E2; [|discriminate].
    injection H as <-. destruct (IH r0 eq_refl) as [L I]. split; [cbn [length]; lia|].
    intros y [<-|Hy]; [exists x; split; [left; reflexivity | exact E]|].
    destruct (I y Hy) as (x' & Hx & Hf). exists x'. split; [right; exact Hx | exact Hf].
Qed.

(* ------------------------------------------------------------------ one table *)
Definition facts (T : tabinfo) : Prop := (tw T = 4 \/ tw T = 8) /\ tc T < 4294967296 /\ blen (te T) = tw T * tc T.
Definition tab_of (T : tabinfo) : N * list N := (tw T, vals (tw T) (tc T) (te T)).

Lemma shift_tab_spec d T : facts T -> (- 2 ^ 31 <= d < 2 ^ 31)%Z ->
  match shift_table_spec d (tab_of T) with
  | Some t' => exists T', shift_tab (shift_entry 32 d) (shift_entry 64 d) T = Ok T' /\ facts T' /\ tab_of T' = t'
  | None => shift_tab (shift_entry 32 d) (shift_entry 64 d) T = EParse InvalidInput
  end.
Proof.
  intros (Hw & Hc & He) Hd. unfold shift_table_spec, tab_of, shift_tab. cbn [fst snd].
  assert (W0 : 0 < tw T) by (destruct Hw as [-> | ->]; lia).
  rewrite (map_entries_eq _ (tw T) W0 (N.to_nat (tc T))); [| rewrite N2Nat.id; exact He | unfold blen in He; nia].
  rewrite N2Nat.id. rewrite (map_res_shift (tw T) d Hw Hd _ (vals_lt _ _ _)).
  destruct (all_some (map (shift (tw T) d) (vals (tw T) (tc T) (te T)))) as [vs|] eqn:E; cbn [rbind]; [|reflexivity].
  destruct (all_some_inv _ _ _ E) as [L I]. rewrite vals_length in L.
  assert (Fv : Forall (fun v => v < 256 ^ tw T) vs).
  { apply Forall_forall. intros y Hy. destruct (I y Hy) as (x & _ & Hx). eapply shift_lt; eassumption. }
  eexists. split; [reflexivity|]. split.
  - unfold facts. cbn [tw tc te]. split; [exact Hw|]. split; [exact Hc|].
    unfold unvals, blen. clear -L Hw. revert L. generalize (tc T). induction vs as [|v r IH]; intros c L.
    + cbn [length flat_map] in *. lia.
    + cbn [flat_map length] in *. rewrite app_length, length_n2be.
      specialize (IH (c - 1)). lia.
  - cbn [tw tc te]. f_equal. replace (tc T) with (N.of_nat (length vs)) by lia. apply vals_unvals; assumption.
Qed.

(* ------------------------------------------------------------------ all tables *)
Definition tabs_of (l : list titem) : list (N * list N) := map (fun i => tab_of (ti i)) l.

Lemma shift_items_spec d l : Forall (fun i => facts (ti i)) l -> (- 2 ^ 31 <= d < 2 ^ 31)%Z ->
  match shift_all d (tabs_of l) with
  | Some ts' => exists l', shift_items (shift_entry 32 d) (shift_entry 64 d) l = Ok l' /\ tabs_of l' = ts'
  | None => shift_items (shift_entry 32 d) (shift_entry 64 d) l = EParse InvalidInput
  end.
Proof.
  intros F Hd. unfold shift_all. induction l as [|i r IH]; cbn [tabs_of map all_some shift_items].
  - exists []. split; reflexivity.
  - inversion F as [|? ? Fi Fr]; subst. specialize (IH Fr). fold (tabs_of r) in *.
    pose proof (shift_tab_spec d (ti i) Fi Hd) as ST.
    destruct (shift_table_spec d (tab_of (ti i))) as [t'|].
    + destruct ST as (T' & E & _ & ET). rewrite E. cbn [rbind].
      destruct (all_some (map (shift_table_spec d) (tabs_of r))) as [ts'|].
      * destruct IH as (r' & Er & Tr). rewrite Er. cbn [rbind]. eexists. split; [reflexivity|].
        cbn [tabs_of map ti]. fold (tabs_of r'). rewrite ET, Tr. reflexivity.
      * rewrite IH. reflexivity.
    + rewrite ST. reflexivity.
Qed.

Lemma tops_occ off ns l : tops off ns l -> forall p, occ p off (put_nodes ns) ->
  Forall (fun i => occ p (to i) (te (ti i))) l.
Proof.
  induction 1 as [off|off k r l Hk _ IH|off h tk r l T pre post Hk F _ IH]; intros p Hocc.
  - constructor.
  - destruct (occ_head _ _ _ _ Hocc) as [_ Hr]. apply IH. exact Hr.
  - destruct (occ_head _ _ _ _ Hocc) as [Hd Hr]. cbn [node_hdr payload] in Hd. constructor; [|apply IH; exact Hr].
    cbn [ti to]. rewrite (focus_put _ _ _ _ _ F) in Hd. apply occ_app_r in Hd. apply occ_app_l in Hd. exact Hd.
Qed.

Lemma tops_facts off ns l : tops off ns l -> Forall (fun i => facts (ti i)) l.
Proof.
  induction 1 as [off|off k r l Hk _ IH|off h tk r l T pre post Hk F _ IH]; [constructor | exact IH|].
  constructor; [|exact IH]. cbn [ti]. exact (focus_facts _ _ _ _ _ F).
Qed.

Lemma co_tables_tops p l : co_regions p = Some (map reg l) ->
  Forall (fun i => occ p (to i) (te (ti i))) l -> Forall (fun i => facts (ti i)) l ->
  co_tables p = Some (tabs_of l).
Proof.
  intros CR Fo Ff. unfold co_tables. rewrite CR. f_equal. rewrite map_map. unfold tabs_of.
  apply map_ext_in. intros i Hi. rewrite Forall_forall in Fo, Ff.
  destruct (Ff i Hi) as (_ & _ & He). unfold reg, tab_of. cbn [fst snd]. f_equal.
  apply entries_occ; [apply Fo; exact Hi | exact He].
Qed.

Lemma tops_co_regions ns l : tops 0 ns l -> lst_ok ns -> l <> [] -> co_regions (put_nodes ns) = Some (map reg l).
Proof.
  intros Tl Hok NE.
  assert (Hocc : occ (put_nodes ns) 0 (put_nodes ns)) by apply occ_all.
  rewrite co_regions_unfold. rewrite (kids_nodes (put_nodes ns) 0 ns Hok Hocc).
  pose proof (tops_spec _ _ _ Tl (put_nodes ns) Hok Hocc) as TS. unfold spec_traks in TS.
  destruct (filter is_trak_c (cbs 0 ns)) as [|c0 l0] eqn:E; [|exact TS].
  cbn [map all_some] in TS. injection TS as TS. destruct l; [congruence | discriminate].
Qed.
