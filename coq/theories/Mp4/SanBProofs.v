(* The run of the MP4 sanitizer over the Level-B reader (futures BufReader(32) over the ideal inner stream; the run whose
   inner-operation trace and fault indices C10 and C13 compare with the implementation) gives the result of the run over
   the ideal cursor (the run the theorems of C01-C05, C09, C10, C13, C14 speak of), for every in-memory input. *)
From Coq Require Import List NArith Bool Lia.
From MS Require Import Base.Bytes Base.Outcome Base.Prog Base.BufLevel Base.BufLevelProofs Mp4.San Mp4.SanB Gen.Consts.
Open Scope N_scope.

Theorem mp4_sanitize_b_is_model cfg lenient ms inp fuel :
  ilen inp <= I64MAX' -> ilen inp <= ms ->
  fst (fst (mp4_sanitize_b cfg lenient ms inp fuel None)) = mp4_sanitize cfg lenient ms inp fuel.
Proof.
  intros Hlen Hms. unfold mp4_sanitize_b, run_b, mp4_sanitize.
  assert (Hcap : 1 <= BOXHEADER_MAX_SIZE) by (vm_compute; discriminate).
  pose proof (level_b_refines_cursor inp lenient ms BOXHEADER_MAX_SIZE Hcap Hlen Hms (sanitize_prog cfg fuel)) as H.
  destruct (run (level_b inp lenient ms BOXHEADER_MAX_SIZE) (sanitize_prog cfg fuel) (lb_init None)) as [r s]. exact H.
Qed.
