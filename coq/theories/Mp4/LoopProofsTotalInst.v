(* C09, MP4 top level, with the moov-internal lemmas of Mp4/BoxProofs.v plugged in:
   the sanitizer model never reaches a Panic site and ilen/8 + 1 units of fuel suffice. *)
From Coq Require Import List NArith ZArith Bool Lia.
From MS Require Import Base.Bytes Base.Outcome Base.Prog Mp4.Header Mp4.Box Mp4.San Mp4.Spec
  Mp4.LoopProofs Mp4.LoopProofsSpec Mp4.LoopProofsTotal Mp4.BoxProofs.
Open Scope N_scope.

Lemma moov_check_quiet p : blen p < 4294967296 -> quiet (moov_check p).
Proof. intros H. apply quiet_of; [apply moov_check_no_panic; exact H | apply moov_check_fuel_enough; exact H]. Qed.

Lemma each_trak_shift_quiet p kids d : moov_check p = Ok kids ->
  quiet (each_trak kids (shift_table (shift_entry 32 d) (shift_entry 64 d))).
Proof.
  intros H. apply quiet_of; [apply (each_trak_shift_no_panic p kids d H) | apply (each_trak_shift_fuel_enough p kids d H)].
Qed.

Lemma mp4_total (cfg : config) (lenient : bool) (inp : input) (fuel : nat) :
  max_metadata_size cfg < 4294967296 -> ilen inp <= U64MAX ->
  (forall t, cumulative_mdat_box_size cfg = Some t -> t <= U32MAX) ->
  match mp4_sanitize cfg lenient U64MAX' inp fuel with
  | Panic _ => False
  | OutOfFuel => (fuel <= N.to_nat (ilen inp / 8))%nat
  | _ => True
  end.
Proof.
  intros Hm Hl Hc.
  assert (Hms : ilen inp <= U64MAX') by (rewrite U64MAX'_eq; exact Hl).
  assert (Hms64 : U64MAX' <= U64MAX) by (rewrite U64MAX'_eq; lia).
  exact (sanitize_total inp lenient U64MAX' cfg Hms Hms64 Hc Hm moov_check_quiet moov_check_put each_trak_shift_quiet fuel).
Qed.

Theorem C09_mp4_toplevel_no_panic :
  forall (cfg : config) (lenient : bool) (inp : input) (fuel : nat),
  max_metadata_size cfg < 4294967296 -> ilen inp <= U64MAX ->
  (forall t, cumulative_mdat_box_size cfg = Some t -> t <= U32MAX) ->
  forall n, mp4_sanitize cfg lenient U64MAX' inp fuel <> Panic n.
Proof.
  intros cfg lenient inp fuel Hm Hl Hc n E. pose proof (mp4_total cfg lenient inp fuel Hm Hl Hc) as H.
  rewrite E in H. exact H.
Qed.

Theorem C09_mp4_toplevel_terminates :
  forall (cfg : config) (lenient : bool) (inp : input) (fuel : nat),
  max_metadata_size cfg < 4294967296 -> ilen inp <= U64MAX ->
  (forall t, cumulative_mdat_box_size cfg = Some t -> t <= U32MAX) ->
  (N.to_nat (ilen inp / 8) < fuel)%nat ->
  mp4_sanitize cfg lenient U64MAX' inp fuel <> OutOfFuel.
Proof.
  intros cfg lenient inp fuel Hm Hl Hc Hf E. pose proof (mp4_total cfg lenient inp fuel Hm Hl Hc) as H.
  rewrite E in H. lia.
Qed.
Print Assumptions C09_mp4_toplevel_no_panic.
Print Assumptions C09_mp4_toplevel_terminates.
