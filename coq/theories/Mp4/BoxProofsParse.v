(* Model (Mp4/Box.v) versus specification (Mp4/Spec.v), first layer: the header reader against the specification's
   header syntax, parse_boxes against the offset-based walker children/kids, parse after put, and the stco/co64
   payload against table_region. *)
From Coq Require Import List NArith ZArith Bool Lia Arith.
From Coq.Strings Require Import Byte.
From MS Require Import Base.Bytes Base.Outcome Mp4.Header Mp4.HeaderProofs Mp4.Box Mp4.Spec Mp4.BoxProofsLazy Mp4.BoxProofsLib.
Import ListNotations.
Open Scope N_scope.
Arguments N.add : simpl never.
Arguments N.sub : simpl never.
Arguments N.mul : simpl never.
Arguments N.div : simpl never.
Arguments N.modulo : simpl never.
Arguments N.pow : simpl never.
Arguments N.eqb : simpl never.
Arguments N.ltb : simpl never.
Arguments N.leb : simpl never.

(* ---- header *)

Lemma blen_firstn_ltb (l : bytes) m k : k <= N.of_nat m -> (blen (firstn m l) <? k) = Nat.ltb (length l) (N.to_nat k).
Proof.
  intros H. unfold blen. rewrite firstn_length.
  destruct (Nat.ltb_spec (length l) (N.to_nat k)); [apply N.ltb_lt | apply N.ltb_ge]; lia.
Qed.

Definition shdr_h (h : header) : shdr := {| sh_type := tyb (htype h); sh_size := box_size_of h; sh_len := encoded_len h |}.

Lemma shdr_hdr l :
  shdr_of (firstn 32 l) = match hdr_read l with None => None | Some (h, _) => Some (shdr_h h) end.
Proof.
  unfold shdr_of, hdr_read.
  rewrite (blen_firstn_ltb l 32 8) by lia. change (N.to_nat 8) with 8%nat.
  destruct (Nat.ltb (length l) 8) eqn:L8; [reflexivity|]. apply Nat.ltb_ge in L8.
  rewrite (slice_firstn l 32 0 4), (slice_firstn l 32 4 4) by lia.
  change (slice l 0 4) with (firstn 4 l). change (slice l 4 4) with (firstn 4 (skipn 4 l)).
  set (sz := be2n (firstn 4 l)). set (name := firstn 4 (skipn 4 l)).
  change (beq name UUID) with (bytes_eqb name UUID4).
  pose proof (skipn_length 8 l) as LR.
  destruct (sz =? 0) eqn:E0; destruct (sz =? 1) eqn:E1; cbv beta iota zeta.
  - apply N.eqb_eq in E0, E1. lia.
  - rewrite (blen_firstn_ltb l 32 8) by lia. change (N.to_nat 8) with 8%nat.
    rewrite (proj2 (Nat.ltb_ge _ _) L8).
    destruct (bytes_eqb name UUID4) eqn:EU.
    + rewrite (blen_firstn_ltb l 32 (8 + 16)) by lia. change (N.to_nat (8 + 16)) with 24%nat.
      rewrite (slice_firstn l 32 8 16) by lia. change (slice l 8 16) with (firstn 16 (skipn 8 l)).
      apply bytes_eqb_eq in EU.
      destruct (Nat.ltb_spec (length l) 24); destruct (Nat.ltb_spec (length (skipn 8 l)) 16); try lia; [reflexivity|].
      unfold shdr_h. cbn [htype hsize tyb box_size_of]. rewrite EU. reflexivity.
    + reflexivity.
  - rewrite (blen_firstn_ltb l 32 16) by lia. change (N.to_nat 16) with 16%nat.
    destruct (Nat.ltb_spec (length l) 16); destruct (Nat.ltb_spec (length (skipn 8 l)) 8); try lia; [reflexivity|].
    rewrite (slice_firstn l 32 8 8) by lia. change (slice l 8 8) with (firstn 8 (skipn 8 l)).
    destruct (bytes_eqb name UUID4) eqn:EU.
    + rewrite (blen_firstn_ltb l 32 (16 + 16)) by lia. change (N.to_nat (16 + 16)) with 32%nat.
      rewrite (slice_firstn l 32 16 16) by lia. change (slice l 16 16) with (firstn 16 (skipn 16 l)).
      apply bytes_eqb_eq in EU.
      pose proof (skipn_length 8 (skipn 8 l)) as LR2. rewrite (skipn_add 8 8 l) in *.
      change (8 + 8)%nat with 16%nat in *.
      destruct (Nat.ltb_spec (length l) 32); destruct (Nat.ltb_spec (length (skipn 16 l)) 16); try lia; [reflexivity|].
      unfold shdr_h. cbn [htype hsize tyb box_size_of]. rewrite EU. reflexivity.
    + reflexivity.
  - rewrite (blen_firstn_ltb l 32 8) by lia. change (N.to_nat 8) with 8%nat.
    rewrite (proj2 (Nat.ltb_ge _ _) L8).
    destruct (bytes_eqb name UUID4) eqn:EU.
    + rewrite (blen_firstn_ltb l 32 (8 + 16)) by lia. change (N.to_nat (8 + 16)) with 24%nat.
      rewrite (slice_firstn l 32 8 16) by lia. change (slice l 8 16) with (firstn 16 (skipn 8 l)).
      apply bytes_eqb_eq in EU.
      destruct (Nat.ltb_spec (length l) 24); destruct (Nat.ltb_spec (length (skipn 8 l)) 16); try lia; [reflexivity|].
      unfold shdr_h. cbn [htype hsize tyb box_size_of]. rewrite EU. reflexivity.
    + reflexivity.
Qed.

(* ---- children *)

Definition cbox_of (off : N) (n : node) : cbox :=
  {| cb_type := tyb (htype (node_hdr n)); cb_hoff := off;
     cb_poff := off + blen (hdr_put (node_hdr n)); cb_plen := blen (payload n) |}.
Fixpoint cbs (off : N) (ns : list node) : list cbox :=
  match ns with [] => [] | n :: r => cbox_of off n :: cbs (off + blen (put_node n)) r end.

Definition res_cbs (off : N) (r : res (list node)) : option (list cbox) :=
  match r with Ok ns => Some (cbs off ns) | _ => None end.

Lemma children_end fuel p : children fuel p (blen p) = Some [].
Proof. destruct fuel; cbn [children]; rewrite N.leb_refl; reflexivity. Qed.

Lemma skipn_nil_iff {A} (l : list A) k : skipn k l = [] <-> (length l <= k)%nat.
Proof.
  split.
  - intros H. apply (f_equal (@length A)) in H. rewrite skipn_length in H. cbn [length] in H. lia.
  - apply skipn_all2.
Qed.

Lemma hdr_read_len l h rest : hdr_read l = Some (h, rest) ->
  blen l = encoded_len h + blen rest /\ blen (hdr_put h) = encoded_len h /\ l = hdr_put h ++ rest.
Proof.
  intros H. apply hdr_read_inv in H. destruct H as [W E].
  unfold hdr_wf in W. apply andb_prop in W. destruct W as [Wt _].
  pose proof (hdr_put_length h Wt) as L. fold (blen (hdr_put h)) in L.
  split; [|split; assumption]. rewrite E at 1. rewrite blen_app, L. reflexivity.
Qed.

Lemma children_eq fuel : forall p off, off <= blen p ->
  children fuel p off = res_cbs off (parse_boxes fuel (skipn (N.to_nat off) p)).
Proof.
  induction fuel as [|fuel IH]; intros p off Hoff.
  - cbn [children]. destruct (N.leb_spec (blen p) off) as [Hle|Hlt].
    + rewrite (proj2 (skipn_nil_iff p (N.to_nat off))) by (unfold blen in *; lia). reflexivity.
    + destruct (skipn (N.to_nat off) p) eqn:E; [|reflexivity].
      apply skipn_nil_iff in E. unfold blen in *. lia.
  - cbn [children]. destruct (N.leb_spec (blen p) off) as [Hle|Hlt].
    + rewrite (proj2 (skipn_nil_iff p (N.to_nat off))) by (unfold blen in *; lia). reflexivity.
    + set (buf := skipn (N.to_nat off) p).
      assert (Lb : blen buf = blen p - off) by (unfold buf, blen; rewrite skipn_length; lia).
      assert (Hne : buf <> []) by (intros E; rewrite E in Lb; cbn in Lb; lia).
      rewrite parse_boxes_step by exact Hne.
      change (slice p off 32) with (firstn 32 buf). rewrite shdr_hdr.
      destruct (hdr_read buf) as [[h rest]|] eqn:Eh; [|reflexivity].
      destruct (hdr_read_len _ _ _ Eh) as (Ll & Lh & Eb).
      unfold shdr_h. cbn [sh_size sh_len sh_type]. unfold box_data_size.
      destruct (box_size_of h) as [sz|] eqn:Es.
      * destruct (N.ltb_spec sz (encoded_len h)) as [Hs|Hs]; [reflexivity|]. cbn [rbind].
        assert (Lr : N.of_nat (length rest) = blen rest) by reflexivity. rewrite Lr.
        destruct (N.ltb_spec (blen p) (off + sz)) as [Ht|Ht];
          destruct (N.leb_spec (sz - encoded_len h) (blen rest)) as [Hn|Hn]; try lia; [reflexivity|].
        rewrite (IH p (off + sz)) by lia.
        assert (Esk : skipn (N.to_nat (off + sz)) p = skipn (N.to_nat (sz - encoded_len h)) rest).
        { replace (N.to_nat (off + sz)) with (N.to_nat off + N.to_nat sz)%nat by lia.
          rewrite <- skipn_add. fold buf. rewrite Eb.
          replace (N.to_nat sz) with (length (hdr_put h) + N.to_nat (sz - encoded_len h))%nat
            by (unfold blen in Lh; lia).
          rewrite <- skipn_add, skipn_app_exact. reflexivity. }
        rewrite Esk.
        destruct (parse_boxes fuel (skipn (N.to_nat (sz - encoded_len h)) rest)) as [r| | | |]; cbn [rbind res_cbs]; try reflexivity.
        cbn [cbs]. f_equal. f_equal.
        -- unfold cbox_of. cbn [node_hdr payload]. rewrite Lh. f_equal.
           unfold blen. rewrite firstn_length. unfold blen in Hn. lia.
        -- f_equal. cbn [put_node]. rewrite blen_app, Lh. unfold blen at 1. rewrite firstn_length.
           unfold blen in Hn. lia.
      * cbn [rbind res_cbs cbs].
        destruct (N.ltb_spec (blen p - off) (encoded_len h)); [lia|].
        destruct (N.ltb_spec (blen p) (off + (blen p - off))); [lia|].
        replace (off + (blen p - off)) with (blen p) by lia. rewrite children_end.
        f_equal. f_equal. unfold cbox_of. cbn [node_hdr payload]. rewrite Lh. f_equal. lia.
Qed.

(* ---- kids, parse after put, tables *)

Lemma cbs_shift off : forall ns o,
  map (fun c => {| cb_type := cb_type c; cb_hoff := off + cb_hoff c; cb_poff := off + cb_poff c; cb_plen := cb_plen c |})
      (cbs o ns) = cbs (off + o) ns.
Proof.
  induction ns as [|n r IH]; intros o; [reflexivity|].
  cbn [cbs map]. rewrite IH. f_equal; [|f_equal; lia].
  unfold cbox_of. cbn [cb_type cb_hoff cb_poff cb_plen]. f_equal. lia.
Qed.

Lemma boxes_fuel_enough (d : bytes) : (length d < 8 * boxes_fuel d)%nat.
Proof.
  unfold boxes_fuel. pose proof (Nat.div_mod (length d) 8). pose proof (Nat.mod_upper_bound (length d) 8). lia.
Qed.

Lemma kids_eq p off len : blen (slice p off len) = len ->
  kids p off len = res_cbs off (parse_boxes (boxes_fuel (slice p off len)) (slice p off len)).
Proof.
  intros L. unfold kids. set (d := slice p off len) in *.
  rewrite children_eq by lia. change (skipn (N.to_nat 0) d) with d.
  replace (S (N.to_nat (len / 8))) with (boxes_fuel d).
  2:{ unfold boxes_fuel. f_equal. rewrite N2Nat.inj_div. rewrite <- L, blen_nat. reflexivity. }
  destruct (parse_boxes (boxes_fuel d) d); cbn [res_cbs]; try reflexivity.
  rewrite cbs_shift. rewrite N.add_0_r. reflexivity.
Qed.

(* ------------------------------------------------------------------ what parse_boxes returns *)
Fixpoint lst_ok (ns : list node) : Prop :=
  match ns with
  | [] => True
  | n :: r =>
      hdr_wf (node_hdr n) = true /\
      (box_data_size (node_hdr n) = Ok (Some (blen (payload n))) \/ (box_size_of (node_hdr n) = None /\ r = [])) /\
      lst_ok r
  end.

Lemma parse_boxes_ok fuel : forall buf ns, parse_boxes fuel buf = Ok ns -> lst_ok ns /\ Forall is_raw ns.
Proof.
  induction fuel as [|fuel IH]; intros buf ns H.
  - destruct buf; cbn [parse_boxes] in H; [injection H as <-; split; [exact I | constructor] | discriminate].
  - destruct buf as [|b0 buf0]; [cbn [parse_boxes] in H; injection H as <-; split; [exact I | constructor]|].
    rewrite parse_boxes_step in H by discriminate.
    destruct (hdr_read (b0 :: buf0)) as [[h rest]|] eqn:Eh; [|discriminate].
    apply hdr_read_inv in Eh. destruct Eh as [Hwf _].
    destruct (box_data_size h) as [ods| | | |] eqn:Ed; cbn [rbind] in H; try discriminate.
    destruct ods as [n|].
    + destruct (N.leb_spec n (N.of_nat (length rest))) as [Hn|Hn]; [|discriminate].
      destruct (parse_boxes fuel (skipn (N.to_nat n) rest)) as [r| | | |] eqn:Er; cbn [rbind] in H; try discriminate.
      injection H as <-. destruct (IH _ _ Er) as [Hl Hr].
      split; [|constructor; [exact I | exact Hr]].
      cbn [lst_ok node_hdr payload]. split; [exact Hwf|]. split; [|exact Hl].
      left. rewrite Ed. do 2 f_equal. unfold blen. rewrite firstn_length. lia.
    + injection H as <-. split; [|constructor; [exact I | constructor]].
      cbn [lst_ok node_hdr]. split; [exact Hwf|]. split; [|exact I]. right. split; [|reflexivity].
      unfold box_data_size in Ed. destruct (box_size_of h); [|reflexivity].
      destruct (_ <? _) in Ed; discriminate.
Qed.

Definition benign {A} (r : res A) : Prop := match r with Ok _ | EParse _ => True | _ => False end.

Lemma parse_boxes_benign fuel : forall buf, (length buf < 8 * fuel)%nat -> benign (parse_boxes fuel buf).
Proof.
  induction fuel as [|fuel IH]; intros buf L; [lia|].
  destruct buf as [|b0 buf0]; [exact I|].
  rewrite parse_boxes_step by discriminate. set (buf := b0 :: buf0) in *.
  destruct (hdr_read buf) as [[h rest]|] eqn:Eh; [|exact I].
  destruct (hdr_read_len _ _ _ Eh) as (Ll & _ & _).
  unfold box_data_size. destruct (box_size_of h) as [sz|]; [|exact I].
  destruct (sz <? encoded_len h); [exact I|]. cbn [rbind].
  destruct (sz - encoded_len h <=? N.of_nat (length rest)); [|exact I].
  assert (B : benign (parse_boxes fuel (skipn (N.to_nat (sz - encoded_len h)) rest))).
  { apply IH. rewrite skipn_length. unfold blen in Ll. unfold encoded_len in Ll.
    destruct (hsize h), (htype h); lia. }
  destruct (parse_boxes fuel (skipn (N.to_nat (sz - encoded_len h)) rest)); cbn [rbind]; try exact I; exact B.
Qed.

Lemma encoded_len_ge8 h : 8 <= encoded_len h.
Proof. unfold encoded_len. destruct (hsize h), (htype h); lia. Qed.

Lemma lst_ok_hdr_len n r : lst_ok (n :: r) -> blen (hdr_put (node_hdr n)) = encoded_len (node_hdr n).
Proof.
  intros [W _]. unfold hdr_wf in W. apply andb_prop in W. destruct W as [Wt _].
  apply (hdr_put_length _ Wt).
Qed.

Lemma parse_put : forall ns fuel, lst_ok ns -> (length (put_nodes ns) < 8 * fuel)%nat ->
  parse_boxes fuel (put_nodes ns) = Ok (map raw_of ns).
Proof.
  induction ns as [|n r IH]; intros fuel Hok L.
  - destruct fuel; reflexivity.
  - pose proof (lst_ok_hdr_len _ _ Hok) as Lh. destruct Hok as (W & Hsz & Hr).
    pose proof (encoded_len_ge8 (node_hdr n)) as G8.
    destruct fuel as [|fuel]; [lia|].
    rewrite put_nodes_cons, put_node_split, <- app_assoc in *.
    set (h := node_hdr n) in *.
    assert (Hne : hdr_put h ++ payload n ++ put_nodes r <> []).
    { intros E. apply (f_equal blen) in E. rewrite blen_app in E. cbn in E. lia. }
    rewrite parse_boxes_step by exact Hne.
    rewrite (hdr_read_put h _ W).
    destruct Hsz as [Hsz|[Hsz ->]].
    + rewrite Hsz. cbn [rbind].
      assert (Lr : N.of_nat (length (payload n ++ put_nodes r)) = blen (payload n) + blen (put_nodes r))
        by (rewrite <- blen_app; reflexivity).
      rewrite Lr. destruct (N.leb_spec (blen (payload n)) (blen (payload n) + blen (put_nodes r))); [|lia].
      rewrite blen_nat, skipn_app_exact, firstn_app_exact.
      rewrite IH; [reflexivity | exact Hr |].
      rewrite !app_length in L. unfold blen in Lh. lia.
    + unfold box_data_size. rewrite Hsz. cbn [rbind put_nodes flat_map map]. rewrite app_nil_r. reflexivity.
Qed.

Lemma cbs_raw_of : forall ns off, cbs off (map raw_of ns) = cbs off ns.
Proof.
  induction ns as [|n r IH]; intros off; [reflexivity|].
  cbn [map cbs]. rewrite put_raw_of, IH. reflexivity.
Qed.

Lemma kids_nodes p off ns : lst_ok ns -> occ p off (put_nodes ns) ->
  kids p off (blen (put_nodes ns)) = Some (cbs off ns).
Proof.
  intros Hok Hocc. rewrite kids_eq by (apply occ_blen; exact Hocc).
  rewrite Hocc. rewrite parse_put by (try exact Hok; apply boxes_fuel_enough).
  cbn [res_cbs]. rewrite cbs_raw_of. reflexivity.
Qed.

Lemma kids_raw p off d : occ p off d ->
  kids p off (blen d) = res_cbs off (parse_boxes (boxes_fuel d) d) /\ benign (parse_boxes (boxes_fuel d) d).
Proof.
  intros Hocc. split.
  - rewrite kids_eq by (apply occ_blen; exact Hocc). rewrite Hocc. reflexivity.
  - apply parse_boxes_benign, boxes_fuel_enough.
Qed.

(* ------------------------------------------------------------------ tables *)
Definition table_region_d (w : N) (d : bytes) : option N :=
  if blen d <? 8 then None else
  if negb (be2n (firstn 4 d) =? 0) then None else
  let count := be2n (firstn 4 (skipn 4 d)) in
  if blen d =? 8 + w * count then Some count else None.

Lemma table_region_eq p w c d : occ p (cb_poff c) d -> cb_plen c = blen d ->
  table_region p w c = option_map (fun cnt => (w, cb_poff c + 8, cnt)) (table_region_d w d).
Proof.
  intros Hocc Hl. unfold table_region, table_region_d. rewrite Hl.
  destruct (N.ltb_spec (blen d) 8) as [H8|H8]; [reflexivity|].
  replace (slice p (cb_poff c) 4) with (firstn 4 d).
  2:{ replace (cb_poff c) with (cb_poff c + 0) by lia. rewrite (occ_slice _ _ _ 0 4 Hocc) by lia. reflexivity. }
  replace (slice p (cb_poff c + 4) 4) with (firstn 4 (skipn 4 d)).
  2:{ rewrite (occ_slice _ _ _ 4 4 Hocc) by lia. reflexivity. }
  destruct (negb (be2n (firstn 4 d) =? 0)); [reflexivity|]. cbv zeta.
  destruct (blen d =? 8 + w * be2n (firstn 4 (skipn 4 d))); reflexivity.
Qed.

Definition tab_payload (c : N) (e : bytes) : bytes := [x00; x00; x00; x00] ++ n2be 4 c ++ e.

Lemma table_region_d_put w c e : c < 4294967296 -> blen e = w * c ->
  table_region_d w (tab_payload c e) = Some c.
Proof.
  intros Hc He. unfold table_region_d, tab_payload.
  assert (L : blen ([x00; x00; x00; x00] ++ n2be 4 c ++ e) = 8 + w * c).
  { rewrite !blen_app, blen_n2be, He. cbn. lia. }
  rewrite L. destruct (N.ltb_spec (8 + w * c) 8); [lia|].
  change (firstn 4 ([x00; x00; x00; x00] ++ n2be 4 c ++ e)) with [x00; x00; x00; x00].
  change (be2n [x00; x00; x00; x00] =? 0) with true. cbn [negb]. cbv zeta.
  change (skipn 4 ([x00; x00; x00; x00] ++ n2be 4 c ++ e)) with (n2be 4 c ++ e).
  rewrite (firstn_app_len (n2be 4 c) e 4 (length_n2be 4 c)).
  rewrite be2n_n2be by (rewrite pow256_4; exact Hc). rewrite N.eqb_refl. reflexivity.
Qed.

Lemma firstn4_split (d : bytes) : firstn 4 d = firstn 1 d ++ firstn 3 (skipn 1 d).
Proof.
  rewrite <- (firstn_skipn 1 (firstn 4 d)). f_equal.
  - rewrite firstn_firstn. reflexivity.
  - rewrite skipn_firstn_comm. reflexivity.
Qed.

Lemma table_fwd w d : blen d < 4294967296 ->
  match parse_table w d with
  | Ok (cnt, e) => d = tab_payload cnt e /\ cnt < 4294967296 /\ blen e = w * cnt
  | EParse _ => table_region_d w d = None
  | _ => False
  end.
Proof.
  intros Hd. destruct (parse_table w d) as [[cnt e]|x| | |] eqn:E.
  - apply parse_table_inv in E. destruct E as (E1 & E2 & E3 & _). repeat split; assumption.
  - unfold table_region_d. destruct (N.ltb_spec (blen d) 8) as [H8|H8]; [reflexivity|].
    unfold parse_table in E.
    assert (Ld : (8 <= length d)%nat) by (unfold blen in H8; lia).
    destruct (Nat.ltb_spec (length d) 1); [lia|]. destruct (Nat.ltb_spec (length d) 4); [lia|].
    assert (L1 : length (firstn 3 (skipn 1 d)) = 3%nat) by (apply firstn_length_le; rewrite skipn_length; lia).
    assert (B3 : be2n (firstn 3 (skipn 1 d)) < 16777216).
    { pose proof (be2n_lt (firstn 3 (skipn 1 d))) as B. rewrite L1 in B. exact B. }
    assert (E4 : be2n (firstn 4 d) = be2n (firstn 1 d) * 16777216 + be2n (firstn 3 (skipn 1 d))).
    { rewrite firstn4_split, be2n_app, L1. reflexivity. }
    destruct (N.eqb_spec (be2n (firstn 1 d)) 0) as [V|V]; cbn [negb] in E.
    2:{ destruct (N.eqb_spec (be2n (firstn 4 d)) 0); [lia | reflexivity]. }
    destruct (N.eqb_spec (be2n (firstn 3 (skipn 1 d))) 0) as [F|F]; cbn [negb] in E.
    2:{ destruct (N.eqb_spec (be2n (firstn 4 d)) 0); [lia | reflexivity]. }
    destruct (N.eqb_spec (be2n (firstn 4 d)) 0); [|reflexivity]. cbn [negb]. cbv zeta in *.
    destruct (Nat.ltb_spec (length (skipn 4 d)) 4); [rewrite skipn_length in *; lia|].
    set (cnt := be2n (firstn 4 (skipn 4 d))) in *.
    assert (L2 : N.of_nat (length (skipn 4 (skipn 4 d))) = blen d - 8).
    { rewrite !skipn_length. unfold blen. lia. }
    rewrite L2 in E.
    destruct (N.ltb_spec U32MAX (w * cnt)) as [M|M].
    { unfold U32MAX in M. destruct (N.eqb_spec (blen d) (8 + w * cnt)); [lia | reflexivity]. }
    rewrite (N.mod_small (blen d - 8)) in E by lia.
    destruct (N.ltb_spec (blen d - 8) (w * cnt)) as [T|T].
    { destruct (N.eqb_spec (blen d) (8 + w * cnt)); [lia | reflexivity]. }
    destruct (Nat.eqb_spec (length (skipn (N.to_nat (w * cnt)) (skipn 4 (skipn 4 d)))) 0) as [X|X]; cbn [negb] in E.
    { discriminate. }
    rewrite !skipn_length in X.
    destruct (N.eqb_spec (blen d) (8 + w * cnt)) as [Q|Q]; [|reflexivity]. unfold blen in Q. lia.
  - unfold parse_table in E. repeat (destruct (_ : bool) in E; try discriminate).
  - unfold parse_table in E.
    destruct (Nat.ltb (length d) 1); [discriminate|]. destruct (Nat.ltb (length d) 4) eqn:L4; [discriminate|].
    destruct (negb _); [discriminate|]. destruct (negb _); [discriminate|]. cbv zeta in E.
    destruct (Nat.ltb_spec (length (skipn 4 d)) 4) as [L8|L8]; [discriminate|].
    destruct (U32MAX <? _); [discriminate|].
    assert (L2 : N.of_nat (length (skipn 4 (skipn 4 d))) = blen d - 8).
    { rewrite !skipn_length in *. unfold blen. lia. }
    rewrite L2 in E. rewrite (N.mod_small (blen d - 8)) in E by lia.
    destruct (blen d - 8 <? _); [discriminate|]. destruct (negb _); discriminate.
  - unfold parse_table in E. repeat (destruct (_ : bool) in E; try discriminate).
Qed.
