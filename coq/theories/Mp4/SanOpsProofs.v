(* The MP4 sanitizer issues fill_buf, read_exact, skip, stream_position, stream_len and allocation events only: never
   the plain read loop OReadUpTo.  Same walk as Mp4/SanProgProofs.v's [propagating_sanitize]. *)
From Coq Require Import List NArith Bool.
From MS Require Import Base.Bytes Base.Outcome Base.Prog Base.ProgOps Mp4.Header Mp4.Box Mp4.San Gen.Consts.
Import ListNotations.
Open Scope N_scope.

Lemma ops_read_header : ops_in not_upto read_header.
Proof. unfold read_header. ops_walk. Qed.
Lemma ops_data_size h : ops_in not_upto (data_size h).
Proof. unfold data_size. ops_walk. Qed.
Lemma ops_skip_box h : ops_in not_upto (skip_box h).
Proof. unfold skip_box. ops_walk; apply ops_data_size. Qed.
Lemma ops_read_data h mx : ops_in not_upto (read_data h mx).
Proof. unfold read_data. ops_walk; apply ops_data_size. Qed.
Lemma ops_step cfg s : ops_in not_upto (step cfg s).
Proof.
  unfold step.
  repeat first [ apply ops_read_header | apply ops_skip_box | apply ops_read_data | progress ops_walk ].
Qed.
Lemma ops_loop cfg : forall fuel s, ops_in not_upto (loop fuel cfg s).
Proof.
  induction fuel as [|fuel IH]; intros s; cbn [loop]; [constructor|].
  ops_walk; first [apply ops_step | apply IH].
Qed.
Lemma ops_check_end : ops_in not_upto check_end.
Proof. unfold check_end. ops_walk. Qed.
Lemma ops_finish s : ops_in not_upto (finish s).
Proof. unfold finish. ops_walk. Qed.
Theorem ops_sanitize cfg fuel : ops_in not_upto (sanitize_prog cfg fuel).
Proof. unfold sanitize_prog. ops_walk; first [apply ops_loop | apply ops_check_end | apply ops_finish]. Qed.
