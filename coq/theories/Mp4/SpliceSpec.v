(* Vocabulary of C02 (b): the file a caller obtains by writing the returned metadata (md followed by pad zero bytes)
   and then the media span of the original input.  Definitions only. *)
From Coq Require Import List NArith.
From Coq.Strings Require Import Byte.
From MS Require Import Base.Bytes Base.Prog Mp4.Spec.
Open Scope N_scope.

(* md ++ zeros pad ++ inp[off, off+len) as an input of any size *)
Definition splice (md : bytes) (pad : N) (inp : input) (off len : N) : input :=
  {| ilen := blen md + pad + len;
     iget := fun i =>
       if i <? blen md then nth (N.to_nat i) md x00
       else if i <? blen md + pad then x00
       else iget inp (off + (i - (blen md + pad))) |}.
