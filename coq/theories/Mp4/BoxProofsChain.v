(* Model (Mp4/Box.v) versus specification (Mp4/Spec.v), second layer: the tree walk (first match of a type, counts,
   lazily parsed children) against the offset-based walker (only / count_of / kids / trak_region / co_regions).
   [focus] describes the forced tree along mdia > minf > stbl > table together with the bytes before and after
   the entry table; [tops] does the same for the children of moov.  [moov_core] is the summary used by
   Mp4/BoxProofs.v. *)
From Coq Require Import List NArith ZArith Bool Lia Arith.
From Coq.Strings Require Import Byte.
From MS Require Import Base.Bytes Base.Outcome Mp4.Header Mp4.HeaderProofs Mp4.Box Mp4.Spec Mp4.BoxProofsLazy Mp4.BoxProofsLib Mp4.BoxProofsParse.
Import ListNotations.
Open Scope N_scope.
Arguments N.add : simpl never.
Arguments N.sub : simpl never.
Arguments N.mul : simpl never.
Arguments N.div : simpl never.
Arguments N.modulo : simpl never.
Arguments N.pow : simpl never.
Arguments N.eqb : simpl never.
Arguments N.ltb : simpl never.
Arguments N.leb : simpl never.


(* ------------------------------------------------------------------ selecting the box of a type: model side *)
Lemma count_type_app t a b : count_type t (a ++ b) = (count_type t a + count_type t b)%nat.
Proof. unfold count_type. rewrite filter_app, app_length. reflexivity. Qed.
Lemma count_type_cons t k r : count_type t (k :: r) = ((if node_is t k then 1 else 0) + count_type t r)%nat.
Proof. unfold count_type. cbn [filter]. destruct (node_is t k); reflexivity. Qed.
Lemma count_type_mid t a k b :
  count_type t (a ++ k :: b) = (count_type t a + ((if node_is t k then 1 else 0) + count_type t b))%nat.
Proof. rewrite count_type_app, count_type_cons. reflexivity. Qed.

Lemma count_one_split t ns : count_type t ns = 1%nat ->
  exists a k b, ns = a ++ k :: b /\ node_is t k = true /\ count_type t a = 0%nat /\ count_type t b = 0%nat.
Proof.
  induction ns as [|n r IH]; intros H; [discriminate|].
  rewrite count_type_cons in H. destruct (node_is t n) eqn:E.
  - exists [], n, r. repeat split; [exact E | lia].
  - destruct (IH H) as (a & k & b & -> & Hk & Ha & Hb). exists (n :: a), k, b.
    repeat split; try assumption. rewrite count_type_cons, E. exact Ha.
Qed.

Lemma update_first_none {A} t (f : node -> res (node * A)) ns : count_type t ns = 0%nat ->
  update_first t ns f = EParse (MissingRequiredBox t).
Proof.
  induction ns as [|n r IH]; intros H; [reflexivity|].
  rewrite count_type_cons in H. cbn [update_first]. destruct (node_is t n); [discriminate|].
  rewrite IH by exact H. reflexivity.
Qed.

Lemma update_first_at {A} t (f : node -> res (node * A)) a k b : count_type t a = 0%nat -> node_is t k = true ->
  update_first t (a ++ k :: b) f = ('(k', x) <- f k ;; Ok (a ++ k' :: b, x)).
Proof.
  intros Ha Hk. induction a as [|n r IH].
  - cbn [app update_first]. rewrite Hk. reflexivity.
  - rewrite count_type_cons in Ha. cbn [app update_first]. destruct (node_is t n); [discriminate|].
    rewrite IH by exact Ha. destruct (f k) as [[k' x]| | | |]; reflexivity.
Qed.

Lemma with_one_at {A} t (f : node -> res (node * A)) a k b :
  count_type t a = 0%nat -> node_is t k = true -> count_type t b = 0%nat ->
  with_one t (a ++ k :: b) f = ('(k', x) <- f k ;; Ok (a ++ k' :: b, x)).
Proof.
  intros Ha Hk Hb. unfold with_one. rewrite count_type_mid, Ha, Hk, Hb. cbn [Nat.add Nat.ltb Nat.leb].
  apply update_first_at; assumption.
Qed.

Lemma with_one_many {A} t (f : node -> res (node * A)) ns : (1 < count_type t ns)%nat ->
  with_one t ns f = EParse InvalidBoxLayout.
Proof. intros H. unfold with_one. rewrite (proj2 (Nat.ltb_lt _ _) H). reflexivity. Qed.

Lemma with_one_none {A} t (f : node -> res (node * A)) ns : count_type t ns = 0%nat ->
  with_one t ns f = EParse (MissingRequiredBox t).
Proof. intros H. unfold with_one. rewrite H. cbn [Nat.ltb Nat.leb]. apply update_first_none. exact H. Qed.

Lemma existsb_count t ns : existsb (node_is t) ns = negb (Nat.eqb (count_type t ns) 0).
Proof.
  induction ns as [|n r IH]; [reflexivity|]. rewrite count_type_cons. cbn [existsb]. rewrite IH.
  destruct (node_is t n); [reflexivity|]. reflexivity.
Qed.

(* ------------------------------------------------------------------ ... and specification side *)
Lemma cbs_app : forall a off b, cbs off (a ++ b) = cbs off a ++ cbs (off + blen (put_nodes a)) b.
Proof.
  induction a as [|n r IH]; intros off b.
  - cbn [app cbs put_nodes flat_map]. rewrite blen_nil, N.add_0_r. reflexivity.
  - cbn [app cbs]. rewrite IH. rewrite put_nodes_cons, blen_app. f_equal. f_equal. f_equal. lia.
Qed.

Lemma cb_type_is t off n : okty t -> beq (cb_type (cbox_of off n)) t = node_is t n.
Proof. intros H. unfold cbox_of, node_is. cbn [cb_type]. apply ty_beq. exact H. Qed.

Lemma filter_cbs_none t : okty t -> forall ns off, count_type t ns = 0%nat ->
  filter (fun c => beq (cb_type c) t) (cbs off ns) = [].
Proof.
  intros Ht. induction ns as [|n r IH]; intros off H; [reflexivity|].
  rewrite count_type_cons in H. cbn [cbs filter]. rewrite (cb_type_is t off n Ht).
  destruct (node_is t n); [discriminate|]. apply IH. exact H.
Qed.

Lemma count_of_cbs t : okty t -> forall ns off, count_of t (cbs off ns) = count_type t ns.
Proof.
  intros Ht. unfold count_of. induction ns as [|n r IH]; intros off; [reflexivity|].
  rewrite count_type_cons. cbn [cbs filter]. rewrite (cb_type_is t off n Ht).
  destruct (node_is t n); cbn [length]; rewrite IH; reflexivity.
Qed.

Lemma only_at t off a k b : okty t ->
  count_type t a = 0%nat -> node_is t k = true -> count_type t b = 0%nat ->
  only t (cbs off (a ++ k :: b)) = Some (cbox_of (off + blen (put_nodes a)) k).
Proof.
  intros Ht Ha Hk Hb. unfold only. rewrite cbs_app, filter_app. cbn [cbs filter].
  rewrite (filter_cbs_none t Ht a off Ha), (cb_type_is t _ k Ht), Hk, (filter_cbs_none t Ht b _ Hb). reflexivity.
Qed.

Lemma only_not_one t off ns : okty t -> count_type t ns <> 1%nat -> only t (cbs off ns) = None.
Proof.
  intros Ht H. rewrite <- (count_of_cbs t Ht ns off) in H. unfold only, count_of in *.
  destruct (filter (fun c => beq (cb_type c) t) (cbs off ns)) as [|c [|c' l]]; try reflexivity.
  cbn [length] in H. congruence.
Qed.

(* ------------------------------------------------------------------ the two chains *)
Definition spec_leaf (p : bytes) (sk : list cbox) : option region :=
  match count_of STCO sk, count_of CO64 sk with
  | 1%nat, 0%nat => match only STCO sk with Some c => table_region p 4 c | None => None end
  | 0%nat, 1%nat => match only CO64 sk with Some c => table_region p 8 c | None => None end
  | _, _ => None
  end.
Fixpoint spec_chain (p : bytes) (path : list bytes) (l : list cbox) : option region :=
  match path with
  | [] => spec_leaf p l
  | t :: path' =>
      match only t l with
      | None => None
      | Some c => match kids p (cb_poff c) (cb_plen c) with None => None | Some l' => spec_chain p path' l' end
      end
  end.
Lemma trak_region_chain p t :
  trak_region p t = match kids p (cb_poff t) (cb_plen t) with
                    | None => None | Some tk => spec_chain p [MDIA; MINF; STBL] tk end.
Proof. reflexivity. Qed.

Fixpoint model_chain {A} (path : list bytes) (ns : list node) (g : node -> res (node * A)) : res (list node * A) :=
  match path with
  | [] => stbl_co ns g
  | t :: path' => in_child t ns (fun ks => model_chain path' ks g)
  end.
Lemma trak_co_chain {A} ns (g : node -> res (node * A)) : trak_co ns g = model_chain [t_mdia; t_minf; t_stbl] ns g.
Proof. reflexivity. Qed.

(* ------------------------------------------------------------------ same header, same payload bytes *)
Definition same (n n' : node) : Prop := node_hdr n' = node_hdr n /\ payload n' = payload n.

Lemma same_put n n' : same n n' -> put_node n' = put_node n.
Proof. intros [H P]. rewrite (put_node_split n), (put_node_split n'), H, P. reflexivity. Qed.
Lemma same_nodes ks ks' : Forall2 same ks ks' -> put_nodes ks' = put_nodes ks.
Proof.
  induction 1 as [|k k' r r' Hk _ IH]; [reflexivity|]. rewrite !put_nodes_cons, IH, (same_put _ _ Hk). reflexivity.
Qed.
Lemma same_refl n : same n n. Proof. split; reflexivity. Qed.
Lemma same_trans a b c : same a b -> same b c -> same a c.
Proof. intros [H1 P1] [H2 P2]. split; congruence. Qed.
Lemma same_cont n n' : force_cont n = Ok n' -> same n n'.
Proof.
  intros E. split; [apply force_cont_hdr; exact E|].
  pose proof (force_cont_put _ _ E) as P. pose proof (force_cont_hdr _ _ E) as H.
  rewrite (put_node_split n), (put_node_split n'), H in P. apply app_inv_head in P. exact P.
Qed.
Lemma same_table w n n' : force_table w n = Ok n' -> same n n'.
Proof.
  intros E. split; [eapply force_table_hdr; exact E|].
  pose proof (force_table_put _ _ _ E) as P. pose proof (force_table_hdr _ _ _ E) as H.
  rewrite (put_node_split n), (put_node_split n'), H in P. apply app_inv_head in P. exact P.
Qed.
Lemma same_kids h ks ks' : Forall2 same ks ks' -> same (Cont h ks) (Cont h ks').
Proof. intros F. split; [reflexivity|]. cbn [payload]. apply same_nodes. exact F. Qed.
Lemma same_tab_count n n' c : tab_count n = Ok (n', c) -> same n n'.
Proof. destruct n; cbn [tab_count]; intros H; try discriminate. injection H as <- _. apply same_refl. Qed.

Lemma model_chain_same {A} (g : node -> res (node * A)) :
  (forall n n' a, g n = Ok (n', a) -> same n n') ->
  forall path ns ns' a, model_chain path ns g = Ok (ns', a) -> Forall2 same ns ns'.
Proof.
  intros Hg. induction path as [|t path IH]; intros ns ns' a H; cbn [model_chain] in H.
  - eapply (stbl_co_rel same); try eassumption.
    + apply same_refl. + apply same_trans. + apply same_table.
  - eapply (in_child_rel same); [apply same_refl | apply same_trans | apply same_cont | apply same_kids | | exact H].
    intros ks ks' a0 H0. eapply IH. exact H0.
Qed.

Lemma lst_ok_same ns ns' : Forall2 same ns ns' -> lst_ok ns -> lst_ok ns'.
Proof.
  induction 1 as [|k k' r r' [Hh Hp] F IH]; [exact (fun x => x)|].
  cbn [lst_ok]. rewrite Hh, Hp. intros (W & S & L). split; [exact W|]. split; [|apply IH; exact L].
  destruct S as [S|[S ->]]; [left; exact S | right; split; [exact S|]]. inversion F. reflexivity.
Qed.

Lemma lst_ok_replace a k k' b : node_hdr k' = node_hdr k -> blen (payload k') = blen (payload k) ->
  lst_ok (a ++ k :: b) -> lst_ok (a ++ k' :: b).
Proof.
  intros Hh Hp. induction a as [|n r IH]; cbn [app lst_ok].
  - rewrite Hh, Hp. exact (fun x => x).
  - intros (W & S & L). split; [exact W|]. split; [|apply IH; exact L].
    destruct S as [S|[_ S]]; [left; exact S|]. destruct r; discriminate.
Qed.

Lemma lst_ok_tail n r : lst_ok (n :: r) -> lst_ok r.
Proof. intros (_ & _ & L). exact L. Qed.

Lemma count_type_replace t a k k' b : node_hdr k' = node_hdr k ->
  count_type t (a ++ k' :: b) = count_type t (a ++ k :: b).
Proof. intros H. rewrite !count_type_mid. unfold node_is. rewrite H. reflexivity. Qed.


(* ------------------------------------------------------------------ the table of a trak, with its surroundings *)
Record tabinfo := { tw : N; tc : N; te : bytes }.

Definition leaf_sel (sk : list node) (w : N) (k : node) : Prop :=
  (count_type t_stco sk = 1%nat /\ count_type t_co64 sk = 0%nat /\ w = 4 /\ node_is t_stco k = true) \/
  (count_type t_stco sk = 0%nat /\ count_type t_co64 sk = 1%nat /\ w = 8 /\ node_is t_co64 k = true).

Inductive focus : list bytes -> list node -> tabinfo -> bytes -> bytes -> Prop :=
  | focus_tab a h w c e b :
      lst_ok (a ++ Tab h w c e :: b) ->
      leaf_sel (a ++ Tab h w c e :: b) w (Tab h w c e) ->
      c < 4294967296 -> blen e = w * c ->
      focus [] (a ++ Tab h w c e :: b) {| tw := w; tc := c; te := e |}
            (put_nodes a ++ hdr_put h ++ [x00; x00; x00; x00] ++ n2be 4 c) (put_nodes b)
  | focus_step t path a h ks b T pre post :
      lst_ok (a ++ Cont h ks :: b) ->
      node_is t (Cont h ks) = true -> count_type t a = 0%nat -> count_type t b = 0%nat ->
      focus path ks T pre post ->
      focus (t :: path) (a ++ Cont h ks :: b) T (put_nodes a ++ hdr_put h ++ pre) (post ++ put_nodes b).

Lemma focus_ok path ns T pre post : focus path ns T pre post -> lst_ok ns.
Proof. destruct 1; assumption. Qed.

Lemma focus_put path ns T pre post : focus path ns T pre post -> put_nodes ns = pre ++ te T ++ post.
Proof.
  induction 1 as [a h w c e b _ _ _ _|t path a h ks b T pre post _ _ _ _ _ IH].
  - rewrite put_nodes_app, put_nodes_cons. cbn [put_node te]. rewrite <- !app_assoc. reflexivity.
  - rewrite put_nodes_app, put_nodes_cons, put_node_cont, IH. rewrite <- !app_assoc. reflexivity.
Qed.

Lemma focus_facts path ns T pre post : focus path ns T pre post ->
  (tw T = 4 \/ tw T = 8) /\ tc T < 4294967296 /\ blen (te T) = tw T * tc T.
Proof.
  induction 1 as [a h w c e b _ S Hc He|t path a h ks b T pre post _ _ _ _ _ IH]; [|exact IH].
  cbn [tw tc te]. split; [|split; assumption]. destruct S as [(_ & _ & -> & _)|(_ & _ & -> & _)]; [left | right]; reflexivity.
Qed.

(* the tree determines what the specification finds *)
Lemma focus_spec path ns T pre post : focus path ns T pre post -> Forall okty path ->
  forall p off, occ p off (put_nodes ns) ->
  spec_chain p path (cbs off ns) = Some (tw T, off + blen pre, tc T).
Proof.
  induction 1 as [a h w c e b Hok S Hc He|t path a h ks b T pre post Hok Ht Ha Hb F IH]; intros Hp p off Hocc.
  - cbn [spec_chain tw tc]. unfold spec_leaf.
    rewrite (count_of_cbs t_stco okty_stco), (count_of_cbs t_co64 okty_co64).
    rewrite put_nodes_app, put_nodes_cons in Hocc.
    pose proof (occ_app_l _ _ _ _ (occ_app_r _ _ _ _ Hocc)) as Hk.
    rewrite put_node_split in Hk. apply occ_app_r in Hk. cbn [node_hdr payload] in Hk.
    assert (TR : table_region p w (cbox_of (off + blen (put_nodes a)) (Tab h w c e)) =
                 Some (w, off + blen (put_nodes a ++ hdr_put h ++ [x00; x00; x00; x00] ++ n2be 4 c), c)).
    { rewrite (table_region_eq p w _ (tab_payload c e)); [| exact Hk | reflexivity].
      rewrite table_region_d_put by assumption. cbn [option_map cbox_of cb_poff node_hdr].
      rewrite !blen_app, blen_n2be. change (blen [x00; x00; x00; x00]) with 4. change (N.of_nat 4) with 4.
      do 2 f_equal. f_equal. lia. }
    destruct S as [(C4 & C8 & -> & Hk4)|(C4 & C8 & -> & Hk8)]; rewrite C4, C8.
    + rewrite count_type_mid in C4. rewrite Hk4 in C4.
      rewrite (only_at t_stco off a _ b okty_stco) by (try exact Hk4; lia). apply TR.
    + rewrite count_type_mid in C8. rewrite Hk8 in C8.
      rewrite (only_at t_co64 off a _ b okty_co64) by (try exact Hk8; lia). apply TR.
  - inversion Hp as [|? ? Hty Hp']; subst. cbn [spec_chain].
    rewrite (only_at t off a _ b Hty Ha Ht Hb).
    rewrite put_nodes_app, put_nodes_cons in Hocc.
    pose proof (occ_app_l _ _ _ _ (occ_app_r _ _ _ _ Hocc)) as Hk.
    rewrite put_node_cont in Hk. apply occ_app_r in Hk.
    cbn [cbox_of cb_poff cb_plen node_hdr payload].
    rewrite (kids_nodes p _ ks (focus_ok _ _ _ _ _ F) Hk).
    rewrite (IH Hp' p _ Hk). rewrite !blen_app. do 2 f_equal. f_equal. lia.
Qed.

(* ------------------------------------------------------------------ the model on freshly parsed (raw) lists *)
Definition fwd_res {A B} (bound : Prop) (m : res A) (okP : A -> Prop) (s : option B) : Prop :=
  match m with
  | Ok a => okP a
  | EParse _ => bound -> s = None
  | _ => bound -> False
  end.

Lemma raw_inv n : is_raw n -> exists h d, n = Raw h d.
Proof. destruct n; cbn [is_raw]; intros H; try contradiction. eauto. Qed.

Lemma Forall_mid {A} (P : A -> Prop) a k b : Forall P (a ++ k :: b) -> P k.
Proof. intros H. apply Forall_app in H. destruct H as [_ H]. inversion H. assumption. Qed.

Lemma occ_mid p off a k b : occ p off (put_nodes (a ++ k :: b)) ->
  occ p (off + blen (put_nodes a) + blen (hdr_put (node_hdr k))) (payload k).
Proof.
  intros Hocc. rewrite put_nodes_app, put_nodes_cons in Hocc.
  pose proof (occ_app_l _ _ _ _ (occ_app_r _ _ _ _ Hocc)) as Hk.
  rewrite put_node_split in Hk. apply occ_app_r in Hk. exact Hk.
Qed.

Lemma blen_mid a k b : blen (payload k) <= blen (put_nodes (a ++ k :: b)).
Proof. rewrite put_nodes_app, put_nodes_cons, put_node_split, !blen_app. lia. Qed.

Lemma leaf_fwd ns p off : occ p off (put_nodes ns) -> lst_ok ns -> Forall is_raw ns ->
  fwd_res (blen (put_nodes ns) < 4294967296) (stbl_co ns tab_count)
          (fun r => exists w e pre post, focus [] (fst r) {| tw := w; tc := snd r; te := e |} pre post)
          (spec_leaf p (cbs off ns)).
Proof.
  intros Hocc Hok Hraw. unfold stbl_co, spec_leaf.
  rewrite (count_of_cbs t_stco okty_stco), (count_of_cbs t_co64 okty_co64), !existsb_count.
  assert (ONE : forall t w, okty t -> ((w = 4 /\ t = t_stco) \/ (w = 8 /\ t = t_co64)) ->
            count_type t ns = 1%nat ->
            (forall k, node_is t k = true -> leaf_sel ns w k) ->
            fwd_res (blen (put_nodes ns) < 4294967296)
              (with_one t ns (fun n => n' <- force_table w n ;; tab_count n'))
              (fun r => exists w e pre post, focus [] (fst r) {| tw := w; tc := snd r; te := e |} pre post)
              (match only t (cbs off ns) with Some c => table_region p w c | None => None end)).
  { intros t w Hty Hw C1 Hsel. destruct (count_one_split t ns C1) as (a & k & b & -> & Hk & Ha & Hb).
    destruct (raw_inv k (Forall_mid _ _ _ _ Hraw)) as (h & d & ->).
    rewrite with_one_at by assumption. rewrite (only_at t off a _ b Hty Ha Hk Hb).
    pose proof (occ_mid _ _ _ _ _ Hocc) as Hd. cbn [node_hdr payload] in Hd.
    pose proof (blen_mid a (Raw h d) b) as Ld. cbn [payload] in Ld.
    cbn [force_table].
    destruct (parse_table w d) as [[cnt e]|x| | |] eqn:E; cbn [rbind tab_count fwd_res fst snd].
    - apply parse_table_inv in E. destruct E as (E1 & E2 & E3 & _).
      exists w, e. eexists. eexists. apply focus_tab.
      + eapply lst_ok_replace; [| |exact Hok]; [reflexivity|]. cbn [payload]. rewrite E1. reflexivity.
      + specialize (Hsel (Tab h w cnt e) Hk).
        unfold leaf_sel in *. rewrite !(count_type_replace _ a (Raw h d) (Tab h w cnt e) b) by reflexivity.
        exact Hsel.
      + exact E2.
      + exact E3.
    - intros Hb32. pose proof (table_fwd w d) as TF. rewrite E in TF.
      rewrite (table_region_eq p w _ d); [| exact Hd | reflexivity]. rewrite TF by lia. reflexivity.
    - intros Hb32. pose proof (table_fwd w d) as TF. rewrite E in TF. apply TF. lia.
    - intros Hb32. pose proof (table_fwd w d) as TF. rewrite E in TF. apply TF. lia.
    - intros Hb32. pose proof (table_fwd w d) as TF. rewrite E in TF. apply TF. lia. }
  destruct (count_type t_stco ns) as [|[|c4]] eqn:C4; destruct (count_type t_co64 ns) as [|[|c8]] eqn:C8;
    cbn [Nat.eqb negb andb fwd_res]; try (intros _; reflexivity).
  - rewrite with_one_none by exact C8. cbn [fwd_res]. intros _. reflexivity.
  - apply (ONE t_co64 8 okty_co64); [right; split; reflexivity | exact C8 |].
    intros k Hk. right. repeat split; assumption.
  - rewrite with_one_many by lia. cbn [fwd_res]. intros _. reflexivity.
  - apply (ONE t_stco 4 okty_stco); [left; split; reflexivity | exact C4 |].
    intros k Hk. left. repeat split; assumption.
  - rewrite with_one_many by lia. cbn [fwd_res]. intros _. reflexivity.
Qed.

Lemma chain_fwd path : Forall okty path -> forall ns p off,
  occ p off (put_nodes ns) -> lst_ok ns -> Forall is_raw ns ->
  fwd_res (blen (put_nodes ns) < 4294967296) (model_chain path ns tab_count)
          (fun r => exists w e pre post, focus path (fst r) {| tw := w; tc := snd r; te := e |} pre post)
          (spec_chain p path (cbs off ns)).
Proof.
  induction 1 as [|t path Hty Hp IH]; intros ns p off Hocc Hok Hraw.
  - apply leaf_fwd; assumption.
  - cbn [model_chain spec_chain]. unfold in_child.
    destruct (count_type t ns) as [|[|c]] eqn:C.
    + rewrite with_one_none by exact C. rewrite only_not_one by (try exact Hty; lia). cbn [fwd_res]. reflexivity.
    + destruct (count_one_split t ns C) as (a & k & b & -> & Hk & Ha & Hb).
      destruct (raw_inv k (Forall_mid _ _ _ _ Hraw)) as (h & d & ->).
      rewrite with_one_at by assumption. rewrite (only_at t off a _ b Hty Ha Hk Hb).
      pose proof (occ_mid _ _ _ _ _ Hocc) as Hd. cbn [node_hdr payload] in Hd.
      pose proof (blen_mid a (Raw h d) b) as Ld. cbn [payload] in Ld.
      cbn [cbox_of cb_poff cb_plen node_hdr payload].
      destruct (kids_raw p _ d Hd) as [KE KB]. rewrite KE. clear KE.
      cbn [force_cont].
      destruct (parse_boxes (boxes_fuel d) d) as [ks|x| | |] eqn:E; cbn [rbind res_cbs fwd_res benign] in *;
        try (intros _; contradiction); [|reflexivity].
      pose proof (parse_boxes_put _ _ _ E) as Pd. destruct (parse_boxes_ok _ _ _ E) as [Ok' Raw'].
      cbn [kids_of]. rewrite <- Pd in Hd.
      specialize (IH ks p _ Hd Ok' Raw'). rewrite Pd in IH.
      destruct (model_chain path ks tab_count) as [[ks' c]|x| | |] eqn:EM; cbn [rbind fwd_res set_kids fst snd] in *.
      * destruct IH as (w & e & pre & post & F). exists w, e. eexists. eexists.
        apply focus_step; [| exact Hk | exact Ha | exact Hb | exact F].
        eapply lst_ok_replace; [| |exact Hok]; [reflexivity|]. cbn [payload].
        pose proof (model_chain_same tab_count same_tab_count _ _ _ _ EM) as SM.
        rewrite (same_nodes _ _ SM), Pd. reflexivity.
      * intros B. apply IH. lia.
      * intros B. apply IH. lia.
      * intros B. apply IH. lia.
      * intros B. apply IH. lia.
    + rewrite with_one_many by lia. rewrite only_not_one by (try exact Hty; lia). cbn [fwd_res]. reflexivity.
Qed.


Record titem := { ti : tabinfo; to : N }.
Definition reg (i : titem) : region := (tw (ti i), to i, tc (ti i)).
Definition path3 : list bytes := [t_mdia; t_minf; t_stbl].
Lemma path3_ok : Forall okty path3.
Proof. repeat constructor; [apply okty_mdia | apply okty_minf | apply okty_stbl]. Qed.

Inductive tops : N -> list node -> list titem -> Prop :=
  | tops_nil off : tops off [] []
  | tops_skip off k r l : node_is t_trak k = false -> tops (off + blen (put_node k)) r l -> tops off (k :: r) l
  | tops_trak off h tk r l T pre post :
      node_is t_trak (Cont h tk) = true -> focus path3 tk T pre post ->
      tops (off + blen (put_node (Cont h tk))) r l ->
      tops off (Cont h tk :: r) ({| ti := T; to := off + blen (hdr_put h) + blen pre |} :: l).

Definition is_trak_c (c : cbox) : bool := beq (cb_type c) TRAK.
Definition spec_traks (p : bytes) (off : N) (ns : list node) : option (list region) :=
  all_some (map (trak_region p) (filter is_trak_c (cbs off ns))).

Lemma all_some_cons_none {A} (x : option A) r : all_some r = None -> all_some (x :: r) = None.
Proof. intros H. cbn [all_some]. destruct x; [rewrite H|]; reflexivity. Qed.

Lemma is_trak_c_of off n : is_trak_c (cbox_of off n) = node_is t_trak n.
Proof. unfold is_trak_c. change TRAK with t_trak. apply cb_type_is. exact okty_trak. Qed.

Lemma occ_head p off k r : occ p off (put_nodes (k :: r)) ->
  occ p (off + blen (hdr_put (node_hdr k))) (payload k) /\ occ p (off + blen (put_node k)) (put_nodes r).
Proof.
  rewrite put_nodes_cons. intros H. split; [|apply occ_app_r; exact H].
  apply occ_app_l in H. rewrite put_node_split in H. apply occ_app_r in H. exact H.
Qed.

Lemma each_trak_same ns ns' cs : each_trak ns tab_count = Ok (ns', cs) -> Forall2 same ns ns'.
Proof.
  intros H. eapply (each_trak_rel same); try eassumption.
  - apply same_refl. - apply same_trans. - apply same_cont. - apply same_table. - apply same_kids.
  - apply same_tab_count.
Qed.

Lemma tops_fwd : forall ns p off, occ p off (put_nodes ns) -> lst_ok ns -> Forall is_raw ns ->
  fwd_res (blen (put_nodes ns) < 4294967296) (each_trak ns tab_count)
    (fun r => exists l, tops off (fst r) l /\ map (fun i => tc (ti i)) l = snd r)
    (spec_traks p off ns).
Proof.
  induction ns as [|k r IH]; intros p off Hocc Hok Hraw.
  - cbn [each_trak fwd_res fst snd]. exists []. split; [constructor | reflexivity].
  - inversion Hraw as [|? ? Rk Rr]; subst. destruct (raw_inv k Rk) as (h & d & ->).
    destruct (occ_head _ _ _ _ Hocc) as [Hd Hr]. cbn [node_hdr payload] in Hd.
    specialize (IH p _ Hr (lst_ok_tail _ _ Hok) Rr).
    assert (Lr : blen (put_nodes r) <= blen (put_nodes (Raw h d :: r)) /\ blen d <= blen (put_nodes (Raw h d :: r))).
    { rewrite put_nodes_cons. cbn [put_node]. rewrite !blen_app. lia. }
    unfold spec_traks in *. cbn [each_trak cbs filter]. rewrite is_trak_c_of.
    destruct (node_is t_trak (Raw h d)) eqn:Et.
    + cbn [map]. rewrite trak_region_chain. cbn [cbox_of cb_poff cb_plen node_hdr payload force_cont].
      destruct (kids_raw p _ d Hd) as [KE KB]. rewrite KE. clear KE.
      destruct (parse_boxes (boxes_fuel d) d) as [ks|x| | |] eqn:E; cbn [rbind res_cbs fwd_res benign] in *;
        try (intros _; contradiction); [|reflexivity].
      pose proof (parse_boxes_put _ _ _ E) as Pd. destruct (parse_boxes_ok _ _ _ E) as [Ok' Raw'].
      cbn [kids_of]. rewrite <- Pd in Hd.
      pose proof (chain_fwd path3 path3_ok ks p _ Hd Ok' Raw') as CF. rewrite Pd in CF.
      rewrite trak_co_chain. change [MDIA; MINF; STBL] with path3. change [t_mdia; t_minf; t_stbl] with path3.
      destruct (model_chain path3 ks tab_count) as [[ks' c]|x| | |] eqn:EM; cbn [rbind fwd_res set_kids fst snd] in *.
      * destruct CF as (w & e & pre & post & F).
        pose proof (model_chain_same tab_count same_tab_count _ _ _ _ EM) as SM.
        assert (Lk : blen (put_node (Cont h ks')) = blen (put_node (Raw h d))).
        { rewrite put_node_cont. cbn [put_node]. rewrite (same_nodes _ _ SM), Pd. reflexivity. }
        destruct (each_trak r tab_count) as [[r' l']|x| | |]; cbn [rbind fwd_res fst snd] in *.
        -- destruct IH as (l & Tl & Ml). eexists. split.
           ++ eapply tops_trak; [exact Et | exact F |]. rewrite Lk. exact Tl.
           ++ cbn [map ti tc]. rewrite Ml. reflexivity.
        -- intros B. apply all_some_cons_none. apply IH. lia.
        -- intros B. apply IH. lia.
        -- intros B. apply IH. lia.
        -- intros B. apply IH. lia.
      * intros B. rewrite CF by lia. reflexivity.
      * intros B. apply CF. lia.
      * intros B. apply CF. lia.
      * intros B. apply CF. lia.
    + destruct (each_trak r tab_count) as [[r' l']|x| | |]; cbn [rbind fwd_res fst snd] in *.
      * destruct IH as (l & Tl & Ml). exists l. split; [|exact Ml]. apply tops_skip; assumption.
      * intros B. apply IH. lia.
      * intros B. apply IH. lia.
      * intros B. apply IH. lia.
      * intros B. apply IH. lia.
Qed.

Lemma tops_spec off ns l : tops off ns l -> forall p, lst_ok ns -> occ p off (put_nodes ns) ->
  spec_traks p off ns = Some (map reg l).
Proof.
  unfold spec_traks.
  induction 1 as [off|off k r l Hk _ IH|off h tk r l T pre post Hk F _ IH]; intros p Hok Hocc.
  - reflexivity.
  - destruct (occ_head _ _ _ _ Hocc) as [_ Hr]. cbn [cbs filter]. rewrite is_trak_c_of, Hk.
    apply IH; [eapply lst_ok_tail; exact Hok | exact Hr].
  - destruct (occ_head _ _ _ _ Hocc) as [Hd Hr]. cbn [node_hdr payload] in Hd.
    cbn [cbs filter]. rewrite is_trak_c_of, Hk. cbn [map all_some].
    rewrite (IH p (lst_ok_tail _ _ Hok) Hr).
    rewrite trak_region_chain. cbn [cbox_of cb_poff cb_plen node_hdr payload].
    rewrite (kids_nodes p _ tk (focus_ok _ _ _ _ _ F) Hd).
    change [MDIA; MINF; STBL] with path3. rewrite (focus_spec _ _ _ _ _ F path3_ok p _ Hd). reflexivity.
Qed.

(* the tables are disjoint parts of the serialised tree: their sizes add up to at most its length *)
Definition sumN (l : list N) : N := fold_right N.add 0 l.

Lemma tops_sum off ns l : tops off ns l -> 4 * sumN (map (fun i => tc (ti i)) l) <= blen (put_nodes ns).
Proof.
  induction 1 as [off|off k r l Hk _ IH|off h tk r l T pre post Hk F _ IH].
  - cbn. lia.
  - rewrite put_nodes_cons, blen_app. lia.
  - rewrite put_nodes_cons, blen_app, put_node_cont, blen_app, (focus_put _ _ _ _ _ F), !blen_app.
    destruct (focus_facts _ _ _ _ _ F) as (W & _ & E). cbn [map sumN fold_right ti]. fold (sumN (map (fun i => tc (ti i)) l)).
    destruct W as [W|W]; rewrite W in E; lia.
Qed.

Lemma sum_u32_ok : forall l acc,
  (match acc with Some a => a | None => 0 end) + sumN l <= U32MAX -> exists v, sum_u32 l acc = Ok v.
Proof.
  induction l as [|c r IH]; intros acc H; cbn [sum_u32].
  - eexists. reflexivity.
  - cbn [sumN fold_right] in H. fold (sumN r) in H. destruct acc as [a|].
    + destruct (N.ltb_spec U32MAX (a + c)); [lia|]. apply IH. cbn. lia.
    + apply IH. cbn. lia.
Qed.

Lemma nonempty_match {A B} (l : list A) (x y : B) : l <> [] -> match l with [] => x | _ :: _ => y end = y.
Proof. destruct l; [congruence | reflexivity]. Qed.

Lemma co_regions_unfold p :
  co_regions p = match kids p 0 (blen p) with
                 | None => None
                 | Some mk => match filter is_trak_c mk with [] => None | _ :: _ => all_some (map (trak_region p) (filter is_trak_c mk)) end
                 end.
Proof. reflexivity. Qed.

(* everything about moov_check in one statement *)
Lemma moov_core p :
  match moov_check p with
  | Ok kids => exists l, tops 0 kids l /\ lst_ok kids /\ put_nodes kids = p /\ l <> [] /\ co_regions p = Some (map reg l)
  | EParse _ => blen p < 4294967296 -> co_regions p = None
  | _ => blen p < 4294967296 -> False
  end.
Proof.
  rewrite co_regions_unfold. unfold moov_check, parse_moov.
  destruct (kids_raw p 0 p (occ_all p)) as [KE KB]. rewrite KE. clear KE.
  destruct (parse_boxes (boxes_fuel p) p) as [ns|x| | |] eqn:E; cbn [rbind res_cbs benign] in *;
    try (intros _; contradiction); [|reflexivity].
  pose proof (parse_boxes_put _ _ _ E) as Pp. destruct (parse_boxes_ok _ _ _ E) as [Ok' Raw'].
  rewrite existsb_count.
  destruct (count_type t_trak ns) as [|nt] eqn:Ct; cbn [Nat.eqb negb rbind].
  { intros _. unfold is_trak_c. change TRAK with t_trak. rewrite (filter_cbs_none t_trak okty_trak ns 0 Ct). reflexivity. }
  assert (NE : filter is_trak_c (cbs 0 ns) <> []).
  { intros Z. pose proof (count_of_cbs t_trak okty_trak ns 0) as C. unfold count_of in C.
    unfold is_trak_c in Z. change TRAK with t_trak in Z. rewrite Z, Ct in C. discriminate. }
  rewrite (nonempty_match _ _ _ NE).
  assert (Hocc : occ p 0 (put_nodes ns)) by (rewrite Pp; apply occ_all).
  pose proof (tops_fwd ns p 0 Hocc Ok' Raw') as TF. rewrite Pp in TF. unfold spec_traks in TF.
  destruct (each_trak ns tab_count) as [[ns' cs]|x| | |] eqn:ET; cbn [rbind fwd_res fst snd] in *;
    try exact TF.
  destruct TF as (l & Tl & Ml).
  pose proof (each_trak_same _ _ _ ET) as SM.
  pose proof (same_nodes _ _ SM) as Pn. rewrite Pp in Pn.
  pose proof (lst_ok_same _ _ SM Ok') as Ok''.
  assert (Hocc' : occ p 0 (put_nodes ns')) by (rewrite Pn; apply occ_all).
  pose proof (tops_spec _ _ _ Tl p Ok'' Hocc') as TS. unfold spec_traks in TS.
  assert (CB : cbs 0 ns' = cbs 0 ns).
  { clear -SM. generalize 0. induction SM as [|k k' r r' Hk _ IH]; intros off; [reflexivity|].
    cbn [cbs]. rewrite IH, (same_put _ _ Hk). f_equal. destruct Hk as [Hh Hp]. unfold cbox_of. rewrite Hh, Hp. reflexivity. }
  rewrite CB in TS.
  pose proof (tops_sum _ _ _ Tl) as SUM. rewrite Ml, Pn in SUM.
  destruct (sum_u32 cs None) as [v|x| | |] eqn:ES; cbn [rbind].
  - exists l. repeat split; try assumption.
    intros Z. subst l. cbn [map] in TS. destruct (filter is_trak_c (cbs 0 ns)) as [|c0 l0]; [congruence|].
    cbn [map all_some] in TS. destruct (trak_region p c0); [|discriminate]. destruct (all_some (map (trak_region p) l0)); discriminate.
  - intros B. destruct (sum_u32_ok cs None) as [v Hv]; [cbn; unfold U32MAX; lia | congruence].
  - intros B. destruct (sum_u32_ok cs None) as [v Hv]; [cbn; unfold U32MAX; lia | congruence].
  - intros B. destruct (sum_u32_ok cs None) as [v Hv]; [cbn; unfold U32MAX; lia | congruence].
  - intros B. destruct (sum_u32_ok cs None) as [v Hv]; [cbn; unfold U32MAX; lia | congruence].
Qed.
