(* C16 part (c): the lazily parsed box tree of Mp4/Box.v serialises to the bytes it was parsed from, whatever
   successful forcings (lazy parses of children / tables through the accessors) have happened in between, and
   the serialised length is the encoded length.

   Finding D9 (a FAILED lazy parse has already consumed part of the child's BytesMut, so that a later
   serialisation is shorter) is OUTSIDE this model: force_cont / force_table return an error and no new state,
   the caller's tree is simply not available after an error (every model function propagates the error).  Nothing
   is claimed here about the state of the Rust value after an accessor returned Err. *)
From Coq Require Import List NArith Bool Lia Arith.
From Coq.Strings Require Import Byte.
From MS Require Import Base.Bytes Base.Outcome Mp4.Header Mp4.HeaderProofs Mp4.Box.
From MS Require Export Mp4.BoxLazy.
Import ListNotations.
Open Scope N_scope.
Arguments N.add : simpl never.
Arguments N.sub : simpl never.
Arguments N.mul : simpl never.
Arguments N.div : simpl never.
Arguments N.modulo : simpl never.
Arguments N.pow : simpl never.
Arguments N.eqb : simpl never.
Arguments N.ltb : simpl never.
Arguments N.leb : simpl never.

(* ------------------------------------------------------------------ induction on nodes *)
Lemma node_ind' (P : node -> Prop) :
  (forall h d, P (Raw h d)) ->
  (forall h ks, Forall P ks -> P (Cont h ks)) ->
  (forall h w c e, P (Tab h w c e)) ->
  forall n, P n.
Proof.
  intros HR HC HT. fix IH 1. intros [h d|h ks|h w c e].
  - apply HR.
  - apply HC. induction ks as [|k r IHr]; constructor; [apply IH | exact IHr].
  - apply HT.
Qed.

(* ------------------------------------------------------------------ basic facts *)
Lemma put_nodes_app a b : put_nodes (a ++ b) = put_nodes a ++ put_nodes b.
Proof. unfold put_nodes. apply flat_map_app. Qed.
Lemma put_nodes_cons k r : put_nodes (k :: r) = put_node k ++ put_nodes r.
Proof. reflexivity. Qed.
Lemma put_node_cont h ks : put_node (Cont h ks) = hdr_put h ++ put_nodes ks.
Proof. reflexivity. Qed.

(* be2n l = 0 only for a string of zero bytes *)
Lemma be2n_acc_lin acc l : be2n_acc acc l = acc * 256 ^ N.of_nat (length l) + be2n l.
Proof.
  unfold be2n. revert acc. induction l as [|b r IH]; intros acc.
  - cbn [be2n_acc length]. change (N.of_nat 0) with 0. rewrite N.pow_0_r. lia.
  - cbn [be2n_acc length]. rewrite IH, (IH (0 * 256 + b2n b)).
    rewrite Nat2N.inj_succ, N.pow_succ_r'. lia.
Qed.
Lemma be2n_cons b r : be2n (b :: r) = b2n b * 256 ^ N.of_nat (length r) + be2n r.
Proof. unfold be2n at 1. cbn [be2n_acc]. rewrite be2n_acc_lin. lia. Qed.
Lemma be2n_app a b : be2n (a ++ b) = be2n a * 256 ^ N.of_nat (length b) + be2n b.
Proof. unfold be2n at 1. rewrite be2n_acc_app. fold (be2n a). apply be2n_acc_lin. Qed.

Lemma b2n_zero b : b2n b = 0 -> b = x00.
Proof. intros H. rewrite <- (n2b_b2n b), H. reflexivity. Qed.

Lemma be2n_zero l : be2n l = 0 -> l = zeros (length l).
Proof.
  induction l as [|b r IH]; intros H; [reflexivity|].
  rewrite be2n_cons in H.
  assert (P : 0 < 256 ^ N.of_nat (length r)) by (apply N.neq_0_lt_0, N.pow_nonzero; lia).
  assert (Hb : b2n b = 0) by nia.
  assert (Hr : be2n r = 0) by nia.
  cbn [length zeros repeat]. rewrite (b2n_zero b Hb). f_equal. apply IH. exact Hr.
Qed.

(* ------------------------------------------------------------------ parse_boxes: round trip *)
Lemma parse_boxes_put fuel : forall buf ns, parse_boxes fuel buf = Ok ns -> put_nodes ns = buf.
Proof.
  induction fuel as [|fuel IH]; intros buf ns H.
  - destruct buf; cbn [parse_boxes] in H; [injection H as <-; reflexivity | discriminate].
  - destruct buf as [|b0 buf0]; [cbn [parse_boxes] in H; injection H as <-; reflexivity|].
    set (buf := b0 :: buf0) in *.
    assert (E : parse_boxes (S fuel) buf =
      match hdr_read buf with
      | None => EParse TruncatedBox
      | Some (h, rest) =>
        ods <- box_data_size h ;;
        match ods with
        | None => Ok [Raw h rest]
        | Some n =>
            if n <=? N.of_nat (length rest)
            then r <- parse_boxes fuel (skipn (N.to_nat n) rest) ;; Ok (Raw h (firstn (N.to_nat n) rest) :: r)
            else EParse TruncatedBox
        end
      end) by reflexivity.
    rewrite E in H. clear E.
    destruct (hdr_read buf) as [[h rest]|] eqn:Eh; [|discriminate].
    apply hdr_read_inv in Eh. destruct Eh as [_ Eb].
    destruct (box_data_size h) as [ods| | | |]; cbn [rbind] in H; try discriminate.
    destruct ods as [n|].
    + destruct (n <=? N.of_nat (length rest)); [|discriminate].
      destruct (parse_boxes fuel (skipn (N.to_nat n) rest)) as [r| | | |] eqn:Er; cbn [rbind] in H; try discriminate.
      injection H as <-. apply IH in Er.
      rewrite put_nodes_cons. cbn [put_node]. rewrite Er, <- app_assoc, firstn_skipn. symmetry. exact Eb.
    + injection H as <-. cbn [put_nodes flat_map put_node]. rewrite app_nil_r. symmetry. exact Eb.
Qed.

(* one unfolding step of parse_boxes on a non-empty buffer (used by the other proof files) *)
Lemma parse_boxes_step fuel buf : buf <> [] ->
  parse_boxes (S fuel) buf =
    match hdr_read buf with
    | None => EParse TruncatedBox
    | Some (h, rest) =>
      ods <- box_data_size h ;;
      match ods with
      | None => Ok [Raw h rest]
      | Some n =>
          if n <=? N.of_nat (length rest)
          then r <- parse_boxes fuel (skipn (N.to_nat n) rest) ;; Ok (Raw h (firstn (N.to_nat n) rest) :: r)
          else EParse TruncatedBox
      end
    end.
Proof. destruct buf; [congruence | reflexivity]. Qed.

(* ------------------------------------------------------------------ single forcings keep the bytes *)
Lemma force_cont_put n n' : force_cont n = Ok n' -> put_node n' = put_node n.
Proof.
  destruct n as [h d|h ks|h w c e]; cbn [force_cont]; intros H; try (injection H as <-; reflexivity).
  destruct (parse_boxes (boxes_fuel d) d) as [ks| | | |] eqn:E; cbn [rbind] in H; try discriminate.
  injection H as <-. apply parse_boxes_put in E. cbn [put_node]. fold (put_nodes ks). rewrite E. reflexivity.
Qed.

Lemma force_cont_hdr n n' : force_cont n = Ok n' -> node_hdr n' = node_hdr n.
Proof.
  destruct n as [h d|h ks|h w c e]; cbn [force_cont]; intros H; try (injection H as <-; reflexivity).
  destruct (parse_boxes (boxes_fuel d) d); cbn [rbind] in H; try discriminate. injection H as <-. reflexivity.
Qed.

Lemma ltb_nat_false a b : Nat.ltb a b = false -> (b <= a)%nat.
Proof. apply Nat.ltb_ge. Qed.

(* the shape of a payload that parse_table accepts *)
Lemma parse_table_inv w d c e : parse_table w d = Ok (c, e) ->
  d = [x00; x00; x00; x00] ++ n2be 4 c ++ e /\ c < 4294967296 /\ N.of_nat (length e) = w * c /\ w * c <= U32MAX.
Proof.
  unfold parse_table.
  destruct (Nat.ltb (length d) 1) eqn:L1; [discriminate|].
  destruct (Nat.ltb (length d) 4) eqn:L4; [discriminate|]. apply ltb_nat_false in L4.
  destruct (be2n (firstn 1 d) =? 0) eqn:V; cbn [negb]; [|discriminate]. apply N.eqb_eq in V.
  destruct (be2n (firstn 3 (skipn 1 d)) =? 0) eqn:F; cbn [negb]; [|discriminate]. apply N.eqb_eq in F.
  cbv zeta.
  destruct (Nat.ltb (length (skipn 4 d)) 4) eqn:L8; [discriminate|]. apply ltb_nat_false in L8.
  set (d1 := skipn 4 d) in *. set (cnt := be2n (firstn 4 d1)). set (d2 := skipn 4 d1).
  destruct (U32MAX <? w * cnt) eqn:M; [discriminate|]. apply N.ltb_ge in M.
  destruct (N.of_nat (length d2) mod 4294967296 <? w * cnt) eqn:T; [discriminate|].
  destruct (N.of_nat (length d2) <? w * cnt) eqn:P; [discriminate|]. apply N.ltb_ge in P.
  destruct (Nat.eqb (length (skipn (N.to_nat (w * cnt)) d2)) 0) eqn:X; cbn [negb]; [|discriminate].
  apply Nat.eqb_eq in X. intros H. injection H as <- <-.
  assert (Lf : length (firstn 4 d1) = 4%nat) by (apply firstn_length_le; exact L8).
  assert (E2 : firstn (N.to_nat (w * cnt)) d2 = d2).
  { rewrite <- (firstn_skipn (N.to_nat (w * cnt)) d2) at 2.
    apply length_zero_iff_nil in X. rewrite X. symmetry. apply app_nil_r. }
  assert (Z4 : firstn 4 d = [x00; x00; x00; x00]).
  { assert (S4 : firstn 4 d = firstn 1 d ++ firstn 3 (skipn 1 d)).
    { rewrite <- (firstn_skipn 1 (firstn 4 d)). f_equal.
      - rewrite firstn_firstn. reflexivity.
      - rewrite skipn_firstn_comm. reflexivity. }
    assert (L1' : length (firstn 1 d) = 1%nat) by (apply firstn_length_le; lia).
    assert (L3' : length (firstn 3 (skipn 1 d)) = 3%nat) by (apply firstn_length_le; rewrite skipn_length; lia).
    apply be2n_zero in V. apply be2n_zero in F. rewrite L1' in V. rewrite L3' in F.
    rewrite S4, V, F. reflexivity. }
  split.
  - rewrite E2. rewrite <- (firstn_skipn 4 d) at 1. rewrite Z4. f_equal.
    fold d1. rewrite <- (firstn_skipn 4 d1) at 1. f_equal. unfold cnt. symmetry. apply n2be4_be2n. exact Lf.
  - split; [|split].
    + pose proof (be2n_lt (firstn 4 d1)) as B. rewrite Lf, pow256_4 in B. exact B.
    + rewrite E2. apply (f_equal (@length byte)) in E2.
      rewrite firstn_length in E2. lia.
    + exact M.
Qed.

Lemma force_table_put w n n' : force_table w n = Ok n' -> put_node n' = put_node n.
Proof.
  destruct n as [h d|h ks|h w0 c e]; cbn [force_table]; intros H; try (injection H as <-; reflexivity).
  destruct (parse_table w d) as [[c e]| | | |] eqn:E; cbn [rbind] in H; try discriminate.
  injection H as <-. apply parse_table_inv in E. destruct E as [E _]. cbn [put_node]. rewrite E. reflexivity.
Qed.

Lemma force_table_hdr w n n' : force_table w n = Ok n' -> node_hdr n' = node_hdr n.
Proof.
  destruct n as [h d|h ks|h w0 c e]; cbn [force_table]; intros H; try (injection H as <-; reflexivity).
  destruct (parse_table w d) as [[c e]| | | |]; cbn [rbind] in H; try discriminate. injection H as <-. reflexivity.
Qed.

(* ------------------------------------------------------------------ the accessors, generically:
   any relation on nodes that is reflexive, transitive, contains the two forcings and is a congruence for the
   children of a container is preserved by with_one / in_child / stbl_co / trak_co / each_trak *)
Section Accessors.
  Variable Rn : node -> node -> Prop.
  Hypothesis Rn_refl : forall n, Rn n n.
  Hypothesis Rn_trans : forall a b c, Rn a b -> Rn b c -> Rn a c.
  Hypothesis Rn_cont : forall n n', force_cont n = Ok n' -> Rn n n'.
  Hypothesis Rn_table : forall w n n', force_table w n = Ok n' -> Rn n n'.
  Hypothesis Rn_kids : forall h ks ks', Forall2 Rn ks ks' -> Rn (Cont h ks) (Cont h ks').

  Lemma F2_refl ks : Forall2 Rn ks ks.
  Proof. induction ks; constructor; auto. Qed.

  Lemma update_first_rel {A} t (f : node -> res (node * A)) :
    (forall k k' a, f k = Ok (k', a) -> Rn k k') ->
    forall ns ns' a, update_first t ns f = Ok (ns', a) -> Forall2 Rn ns ns'.
  Proof.
    intros Hf. induction ns as [|k r IH]; intros ns' a H; cbn [update_first] in H; [discriminate|].
    destruct (node_is t k).
    - destruct (f k) as [[k' a']| | | |] eqn:E; cbn [rbind] in H; try discriminate.
      injection H as <- <-. constructor; [eapply Hf; exact E | apply F2_refl].
    - destruct (update_first t r f) as [[r' a']| | | |] eqn:E; cbn [rbind] in H; try discriminate.
      injection H as <- <-. constructor; [apply Rn_refl | eapply IH; reflexivity].
  Qed.

  Lemma with_one_rel {A} t (f : node -> res (node * A)) :
    (forall k k' a, f k = Ok (k', a) -> Rn k k') ->
    forall ns ns' a, with_one t ns f = Ok (ns', a) -> Forall2 Rn ns ns'.
  Proof.
    intros Hf ns ns' a H. unfold with_one in H. destruct (Nat.ltb 1 (count_type t ns)); [discriminate|].
    eapply update_first_rel; eassumption.
  Qed.

  Lemma set_kids_rel n' ks' : Forall2 Rn (kids_of n') ks' -> Rn n' (set_kids n' ks').
  Proof. destruct n' as [h d|h ks|h w c e]; cbn [kids_of set_kids]; intros H; [apply Rn_refl | apply Rn_kids; exact H | apply Rn_refl]. Qed.

  Lemma in_child_rel {A} t (f : list node -> res (list node * A)) :
    (forall ks ks' a, f ks = Ok (ks', a) -> Forall2 Rn ks ks') ->
    forall ns ns' a, in_child t ns f = Ok (ns', a) -> Forall2 Rn ns ns'.
  Proof.
    intros Hf ns ns' a H. unfold in_child in H. eapply with_one_rel; [|exact H].
    intros k k' a0 Hk. cbv beta in Hk.
    destruct (force_cont k) as [n'| | | |] eqn:E; cbn [rbind] in Hk; try discriminate.
    destruct (f (kids_of n')) as [[ks' a1]| | | |] eqn:E2; cbn [rbind] in Hk; try discriminate.
    injection Hk as <- <-.
    eapply Rn_trans; [apply Rn_cont; exact E|]. apply set_kids_rel. eapply Hf. exact E2.
  Qed.

  Lemma stbl_co_rel {A} (g : node -> res (node * A)) :
    (forall n n' a, g n = Ok (n', a) -> Rn n n') ->
    forall ns ns' a, stbl_co ns g = Ok (ns', a) -> Forall2 Rn ns ns'.
  Proof.
    intros Hg ns ns' a H. unfold stbl_co in H.
    destruct (existsb (node_is t_stco) ns && existsb (node_is t_co64) ns); [discriminate|].
    destruct (existsb (node_is t_stco) ns).
    - eapply with_one_rel; [|exact H]. intros k k' a0 Hk. cbv beta in Hk.
      destruct (force_table 4 k) as [n'| | | |] eqn:E; cbn [rbind] in Hk; try discriminate.
      eapply Rn_trans; [eapply Rn_table; exact E | eapply Hg; exact Hk].
    - eapply with_one_rel; [|exact H]. intros k k' a0 Hk. cbv beta in Hk.
      destruct (force_table 8 k) as [n'| | | |] eqn:E; cbn [rbind] in Hk; try discriminate.
      eapply Rn_trans; [eapply Rn_table; exact E | eapply Hg; exact Hk].
  Qed.

  Lemma trak_co_rel {A} (g : node -> res (node * A)) :
    (forall n n' a, g n = Ok (n', a) -> Rn n n') ->
    forall ns ns' a, trak_co ns g = Ok (ns', a) -> Forall2 Rn ns ns'.
  Proof.
    intros Hg ns ns' a H. unfold trak_co in H.
    eapply in_child_rel; [|exact H]. intros ks1 ks1' a1 H1.
    eapply in_child_rel; [|exact H1]. intros ks2 ks2' a2 H2.
    eapply in_child_rel; [|exact H2]. intros ks3 ks3' a3 H3.
    eapply stbl_co_rel; eassumption.
  Qed.

  Lemma each_trak_rel {A} (g : node -> res (node * A)) :
    (forall n n' a, g n = Ok (n', a) -> Rn n n') ->
    forall ns ns' l, each_trak ns g = Ok (ns', l) -> Forall2 Rn ns ns'.
  Proof.
    intros Hg. induction ns as [|k r IH]; intros ns' l H; cbn [each_trak] in H.
    - injection H as <- <-. constructor.
    - destruct (node_is t_trak k).
      + destruct (force_cont k) as [k'| | | |] eqn:E; cbn [rbind] in H; try discriminate.
        destruct (trak_co (kids_of k') g) as [[tk a]| | | |] eqn:E2; cbn [rbind] in H; try discriminate.
        destruct (each_trak r g) as [[r' l']| | | |] eqn:E3; cbn [rbind] in H; try discriminate.
        injection H as <- <-. constructor; [|eapply IH; reflexivity].
        eapply Rn_trans; [apply Rn_cont; exact E|]. apply set_kids_rel. eapply trak_co_rel; eassumption.
      + destruct (each_trak r g) as [[r' l']| | | |] eqn:E3; cbn [rbind] in H; try discriminate.
        injection H as <- <-. constructor; [apply Rn_refl | eapply IH; reflexivity].
  Qed.
End Accessors.

(* ------------------------------------------------------------------ instance 1: a relation on the serialised bytes *)
Section BytesRel.
  Variable R : bytes -> bytes -> Prop.
  Hypothesis R_refl : forall x, R x x.
  Hypothesis R_trans : forall a b c, R a b -> R b c -> R a c.
  Hypothesis R_app : forall a a' b b', R a a' -> R b b' -> R (a ++ b) (a' ++ b').

  Definition Rb (n n' : node) : Prop := R (put_node n) (put_node n').

  Lemma Rb_nodes ks ks' : Forall2 Rb ks ks' -> R (put_nodes ks) (put_nodes ks').
  Proof.
    induction 1 as [|k k' r r' Hk _ IH]; [apply R_refl|].
    rewrite !put_nodes_cons. apply R_app; assumption.
  Qed.

  Lemma each_trak_bytes {A} (g : node -> res (node * A)) :
    (forall n n' a, g n = Ok (n', a) -> R (put_node n) (put_node n')) ->
    forall ns ns' l, each_trak ns g = Ok (ns', l) -> R (put_nodes ns) (put_nodes ns').
  Proof.
    intros Hg ns ns' l H. apply Rb_nodes.
    eapply (each_trak_rel Rb); try eassumption; unfold Rb.
    - intros; apply R_refl.
    - intros; eapply R_trans; eassumption.
    - intros n n' E. rewrite (force_cont_put _ _ E). apply R_refl.
    - intros w n n' E. rewrite (force_table_put _ _ _ E). apply R_refl.
    - intros h ks ks' F. rewrite !put_node_cont. apply R_app; [apply R_refl | apply Rb_nodes; exact F].
  Qed.

  Lemma trak_co_bytes {A} (g : node -> res (node * A)) :
    (forall n n' a, g n = Ok (n', a) -> R (put_node n) (put_node n')) ->
    forall ns ns' a, trak_co ns g = Ok (ns', a) -> R (put_nodes ns) (put_nodes ns').
  Proof.
    intros Hg ns ns' l H. apply Rb_nodes.
    eapply (trak_co_rel Rb); try eassumption; unfold Rb.
    - intros; apply R_refl.
    - intros; eapply R_trans; eassumption.
    - intros n n' E. rewrite (force_cont_put _ _ E). apply R_refl.
    - intros w n n' E. rewrite (force_table_put _ _ _ E). apply R_refl.
    - intros h ks ks' F. rewrite !put_node_cont. apply R_app; [apply R_refl | apply Rb_nodes; exact F].
  Qed.
End BytesRel.

(* equal bytes *)
Lemma each_trak_put {A} (g : node -> res (node * A)) :
  (forall n n' a, g n = Ok (n', a) -> put_node n' = put_node n) ->
  forall kids kids' l, each_trak kids g = Ok (kids', l) -> put_nodes kids' = put_nodes kids.
Proof.
  intros Hg kids kids' l H. symmetry.
  eapply (each_trak_bytes (@eq bytes)); try eassumption.
  - reflexivity.
  - intros; congruence.
  - intros; congruence.
  - intros n n' a E. symmetry. eapply Hg. exact E.
Qed.

Lemma trak_co_put {A} (g : node -> res (node * A)) :
  (forall n n' a, g n = Ok (n', a) -> put_node n' = put_node n) ->
  forall kids kids' a, trak_co kids g = Ok (kids', a) -> put_nodes kids' = put_nodes kids.
Proof.
  intros Hg kids kids' l H. symmetry.
  eapply (trak_co_bytes (@eq bytes)); try eassumption.
  - reflexivity.
  - intros; congruence.
  - intros; congruence.
  - intros n n' a E. symmetry. eapply Hg. exact E.
Qed.

Lemma tab_count_put n n' c : tab_count n = Ok (n', c) -> put_node n' = put_node n.
Proof. destruct n; cbn [tab_count]; intros H; try discriminate. injection H as <- _. reflexivity. Qed.

Lemma each_trak_count_put kids kids' cs : each_trak kids tab_count = Ok (kids', cs) -> put_nodes kids' = put_nodes kids.
Proof. apply each_trak_put. exact tab_count_put. Qed.

Lemma parse_moov_put p kids : parse_moov p = Ok kids -> put_nodes kids = p.
Proof.
  unfold parse_moov. destruct (parse_boxes (boxes_fuel p) p) as [ks| | | |] eqn:E; cbn [rbind]; try discriminate.
  destruct (existsb (node_is t_trak) ks); [|discriminate]. intros H. injection H as <-.
  eapply parse_boxes_put. exact E.
Qed.

Lemma moov_check_put : forall p kids, moov_check p = Ok kids -> put_nodes kids = p.
Proof.
  intros p kids H. unfold moov_check in H.
  destruct (parse_moov p) as [ks| | | |] eqn:E; cbn [rbind] in H; try discriminate.
  destruct (each_trak ks tab_count) as [[ks' cs]| | | |] eqn:E2; cbn [rbind] in H; try discriminate.
  destruct (sum_u32 cs None); cbn [rbind] in H; try discriminate. injection H as <-.
  rewrite (each_trak_count_put _ _ _ E2). apply parse_moov_put. exact E.
Qed.

(* same length: the entry rewrite *)
Lemma map_entries_length fuel w f : forall e e', map_entries fuel w f e = Ok e' -> length e' = length e.
Proof.
  induction fuel as [|fuel IH]; intros e e' H; cbn [map_entries] in H; [discriminate|].
  destruct (Nat.ltb (length e) w) eqn:L; [injection H as <-; reflexivity|]. apply ltb_nat_false in L.
  destruct (f (be2n (firstn w e))) as [v| | | |]; cbn [rbind] in H; try discriminate.
  destruct (map_entries fuel w f (skipn w e)) as [r| | | |] eqn:E; cbn [rbind] in H; try discriminate.
  injection H as <-. rewrite app_length, length_n2be, (IH _ _ E), skipn_length. lia.
Qed.

Lemma shift_table_length f g n n' u : shift_table f g n = Ok (n', u) -> length (put_node n') = length (put_node n).
Proof.
  destruct n as [h d|h ks|h w c e]; cbn [shift_table]; intros H; try discriminate.
  destruct (map_entries (S (length e)) (N.to_nat w) (if w =? 4 then f else g) e) as [e'| | | |] eqn:E;
    cbn [rbind] in H; try discriminate.
  injection H as <- _. apply map_entries_length in E. cbn [put_node]. rewrite !app_length, E. reflexivity.
Qed.

Lemma each_trak_shift_length : forall f g kids kids' l,
  each_trak kids (shift_table f g) = Ok (kids', l) -> length (put_nodes kids') = length (put_nodes kids).
Proof.
  intros f g kids kids' l H. symmetry.
  eapply (each_trak_bytes (fun a b : bytes => length a = length b)); try eassumption.
  - reflexivity.
  - intros; congruence.
  - intros a a' b b' H1 H2. rewrite !app_length. congruence.
  - intros n n' a E. symmetry. eapply shift_table_length. exact E.
Qed.

(* ------------------------------------------------------------------ instance 2: the forcing relation *)

Lemma forces_kids h ks ks' : Forall2 forces ks ks' -> forces (Cont h ks) (Cont h ks').
Proof.
  intros F. change ks with ([] ++ ks). change ks' with ([] ++ ks'). generalize (@nil node) as a.
  induction F as [|k k' r r' Hk _ IH]; intros a; [apply forces_refl|].
  eapply forces_trans; [apply forces_kid; exact Hk|].
  specialize (IH (a ++ [k'])). rewrite <- !app_assoc in IH. exact IH.
Qed.

Lemma forces_put n n' : forces n n' -> put_node n' = put_node n.
Proof.
  induction 1 as [n|a b c _ IH1 _ IH2|n n' E|w n n' E|h a k k' b _ IH].
  - reflexivity.
  - congruence.
  - apply force_cont_put. exact E.
  - eapply force_table_put. exact E.
  - rewrite !put_node_cont, !put_nodes_app, !put_nodes_cons, IH. reflexivity.
Qed.

Lemma forces_list_put ns ns' : Forall2 forces ns ns' -> put_nodes ns' = put_nodes ns.
Proof.
  induction 1 as [|k k' r r' Hk _ IH]; [reflexivity|].
  rewrite !put_nodes_cons, IH, (forces_put _ _ Hk). reflexivity.
Qed.

(* the accessors of the model only ever perform forcings (when the table function does) *)
Lemma each_trak_forces {A} (g : node -> res (node * A)) :
  (forall n n' a, g n = Ok (n', a) -> forces n n') ->
  forall ns ns' l, each_trak ns g = Ok (ns', l) -> Forall2 forces ns ns'.
Proof.
  intros Hg ns ns' l H.
  eapply (each_trak_rel forces); try eassumption.
  - apply forces_refl.
  - apply forces_trans.
  - apply forces_cont.
  - apply forces_table.
  - apply forces_kids.
Qed.

Lemma trak_co_forces {A} (g : node -> res (node * A)) :
  (forall n n' a, g n = Ok (n', a) -> forces n n') ->
  forall ns ns' a, trak_co ns g = Ok (ns', a) -> Forall2 forces ns ns'.
Proof.
  intros Hg ns ns' l H.
  eapply (trak_co_rel forces); try eassumption.
  - apply forces_refl.
  - apply forces_trans.
  - apply forces_cont.
  - apply forces_table.
  - apply forces_kids.
Qed.

Lemma tab_count_forces n n' c : tab_count n = Ok (n', c) -> forces n n'.
Proof. destruct n; cbn [tab_count]; intros H; try discriminate. injection H as <- _. apply forces_refl. Qed.

(* ------------------------------------------------------------------ encoded length *)
Lemma node_encoded_len_ok : forall n, node_wf n = true -> N.of_nat (length (put_node n)) = node_encoded_len n.
Proof.
  induction n as [h d|h ks IH|h w c e] using node_ind'; cbn [node_wf node_hdr]; intros H;
    apply andb_prop in H; destruct H as [Ht Hk].
  - cbn [put_node node_encoded_len]. rewrite app_length, Nat2N.inj_add, (hdr_put_length h Ht). reflexivity.
  - rewrite put_node_cont. cbn [node_encoded_len]. rewrite app_length, Nat2N.inj_add, (hdr_put_length h Ht). f_equal.
    induction ks as [|k r IHr]; [reflexivity|].
    cbn [forallb] in Hk. apply andb_prop in Hk. destruct Hk as [Hk Hr].
    inversion IH as [|? ? IHk IHr']; subst.
    rewrite put_nodes_cons, app_length, Nat2N.inj_add. cbn [map fold_right].
    rewrite (IHk Hk), (IHr IHr' Hr). reflexivity.
  - cbn [put_node node_encoded_len]. rewrite !app_length, !Nat2N.inj_add, (hdr_put_length h Ht), length_n2be.
    cbn [length]. lia.
Qed.

Lemma nodes_encoded_len_ok ns : forallb node_wf ns = true -> N.of_nat (length (put_nodes ns)) = nodes_encoded_len ns.
Proof.
  induction ns as [|k r IH]; [reflexivity|]. cbn [forallb]. intros H. apply andb_prop in H. destruct H as [Hk Hr].
  rewrite put_nodes_cons, app_length, Nat2N.inj_add. unfold nodes_encoded_len. cbn [map fold_right].
  rewrite (node_encoded_len_ok k Hk). fold (nodes_encoded_len r). rewrite (IH Hr). reflexivity.
Qed.

Lemma parse_boxes_wf fuel : forall buf ns, parse_boxes fuel buf = Ok ns -> forallb node_wf ns = true.
Proof.
  induction fuel as [|fuel IH]; intros buf ns H.
  - destruct buf; cbn [parse_boxes] in H; [injection H as <-; reflexivity | discriminate].
  - destruct buf as [|b0 buf0]; [cbn [parse_boxes] in H; injection H as <-; reflexivity|].
    rewrite parse_boxes_step in H by discriminate.
    destruct (hdr_read (b0 :: buf0)) as [[h rest]|] eqn:Eh; [|discriminate].
    apply hdr_read_inv in Eh. destruct Eh as [Hwf _].
    unfold hdr_wf in Hwf. apply andb_prop in Hwf. destruct Hwf as [Ht _].
    destruct (box_data_size h) as [ods| | | |]; cbn [rbind] in H; try discriminate.
    destruct ods as [n|].
    + destruct (n <=? N.of_nat (length rest)); [|discriminate].
      destruct (parse_boxes fuel (skipn (N.to_nat n) rest)) as [r| | | |] eqn:Er; cbn [rbind] in H; try discriminate.
      injection H as <-. cbn [forallb node_wf node_hdr]. rewrite Ht, (IH _ _ Er). reflexivity.
    + injection H as <-. cbn [forallb node_wf node_hdr]. rewrite Ht. reflexivity.
Qed.

Lemma forallb_app_mid {A} (f : A -> bool) a k b : forallb f (a ++ k :: b) = forallb f a && (f k && forallb f b).
Proof. rewrite forallb_app. reflexivity. Qed.

Lemma forces_wf n n' : forces n n' -> node_wf n = true -> node_wf n' = true.
Proof.
  induction 1 as [n|a b c _ IH1 _ IH2|n n' E|w n n' E|h a k k' b _ IH]; intros Hw.
  - exact Hw.
  - auto.
  - destruct n as [h d|h ks|h w c e]; cbn [force_cont] in E; try (injection E as <-; exact Hw).
    destruct (parse_boxes (boxes_fuel d) d) as [ks| | | |] eqn:Ep; cbn [rbind] in E; try discriminate.
    injection E as <-. cbn [node_wf node_hdr] in *. apply andb_prop in Hw. destruct Hw as [Ht _].
    rewrite Ht, (parse_boxes_wf _ _ _ Ep). reflexivity.
  - destruct n as [h d|h ks|h w0 c e]; cbn [force_table] in E; try (injection E as <-; exact Hw).
    destruct (parse_table w d) as [[c e]| | | |]; cbn [rbind] in E; try discriminate.
    injection E as <-. exact Hw.
  - cbn [node_wf node_hdr] in *. apply andb_prop in Hw. destruct Hw as [Ht Hk]. rewrite Ht. cbn [andb].
    rewrite forallb_app_mid in *. apply andb_prop in Hk. destruct Hk as [Ha Hk]. apply andb_prop in Hk.
    destruct Hk as [Hk Hb]. rewrite Ha, (IH Hk), Hb. reflexivity.
Qed.

Lemma forces_list_wf ns ns' : Forall2 forces ns ns' -> forallb node_wf ns = true -> forallb node_wf ns' = true.
Proof.
  induction 1 as [|k k' r r' Hk _ IH]; [reflexivity|]. cbn [forallb]. intros H. apply andb_prop in H.
  destruct H as [H1 H2]. rewrite (forces_wf _ _ Hk H1), (IH H2). reflexivity.
Qed.

(* ------------------------------------------------------------------ the two theorems of C16 (c) *)
(* whatever was parsed, and whichever of its boxes have since been parsed further (any number of successful
   forcings, at any depth, in any order), serialising gives back exactly the parsed bytes *)
Lemma lazy_roundtrip : forall (fuel : nat) (buf : bytes) (ns ns' : list node),
  parse_boxes fuel buf = Ok ns -> Forall2 forces ns ns' ->
  put_nodes ns = buf /\ put_nodes ns' = buf.
Proof.
  intros fuel buf ns ns' H F. pose proof (parse_boxes_put _ _ _ H) as E.
  split; [exact E|]. rewrite (forces_list_put _ _ F). exact E.
Qed.

(* ... and the number of bytes written is the encoded length, before and after *)
Lemma encoded_len_agrees : forall (fuel : nat) (buf : bytes) (ns ns' : list node),
  parse_boxes fuel buf = Ok ns -> Forall2 forces ns ns' ->
  N.of_nat (length (put_nodes ns')) = nodes_encoded_len ns' /\
  nodes_encoded_len ns' = N.of_nat (length buf) /\
  (forall n, In n ns' -> N.of_nat (length (put_node n)) = node_encoded_len n).
Proof.
  intros fuel buf ns ns' H F.
  pose proof (forces_list_wf _ _ F (parse_boxes_wf _ _ _ H)) as W.
  pose proof (nodes_encoded_len_ok _ W) as L.
  split; [exact L|]. split.
  - rewrite <- L. destruct (lazy_roundtrip _ _ _ _ H F) as [_ E]. rewrite E. reflexivity.
  - intros n Hin. apply node_encoded_len_ok. rewrite forallb_forall in W. apply W. exact Hin.
Qed.

(* the accessor chain of the sanitizer is such a sequence of forcings *)
Lemma accessors_are_forcings : forall (kids kids' : list node) (cs : list N),
  each_trak kids tab_count = Ok (kids', cs) -> Forall2 forces kids kids'.
Proof. intros kids kids' cs H. eapply each_trak_forces; [exact tab_count_forces | exact H]. Qed.

(* non-vacuity: a trak > mdia > minf > stbl > stco tree with one entry, forced through the accessors *)
Definition ex_box (t : bytes) (payload : bytes) : bytes := n2be 4 (8 + N.of_nat (length payload)) ++ t ++ payload.
Definition ex_stco : bytes := ex_box t_stco ([x00;x00;x00;x00] ++ n2be 4 1 ++ n2be 4 77).
Definition ex_trak : bytes := ex_box t_trak (ex_box t_mdia (ex_box t_minf (ex_box t_stbl ex_stco))).
Example lazy_roundtrip_sat :
  exists ns ns' cs, parse_boxes (boxes_fuel ex_trak) ex_trak = Ok ns /\ each_trak ns tab_count = Ok (ns', cs) /\
                    cs = [1] /\ ns' <> ns /\ put_nodes ns' = ex_trak.
Proof.
  eexists. eexists. eexists. split; [vm_compute; reflexivity|]. split; [vm_compute; reflexivity|].
  split; [reflexivity|]. split; [discriminate | vm_compute; reflexivity].
Qed.
