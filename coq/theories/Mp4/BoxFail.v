(* The lazily parsed box tree AFTER A FAILED ACCESSOR CALL (finding D9 brought inside the model).
   BoxData::parse_as hands the child's own BytesMut to the parser; a parser that fails has already consumed what it read, and the
   child stays BoxData::Bytes over what is left.  This file says what is left, and re-states the accessor chains of Mp4/Box.v and
   Mp4/BoxOps.v in state-passing form: every function returns the state of the tree after the call together with the outcome,
   whether the call succeeded or not.  Definitions only; Mp4/BoxFailProofs.v shows that on success they are the functions of
   Mp4/Box.v / BoxOps.v and that on failure the outcome is the same error.

   What a failing parser has consumed (read from mp4san/src/parse/{mp4box,header,integers,array}.rs and mp4san/src/sync.rs):
   - Boxes::parse = `while buf.has_remaining() { boxes.push(Mp4Box::parse(buf)?) }`: the children parsed so far were split off the
     buffer and are dropped with the Vec; BoxHeader::parse reads through `buf_async_reader` with read_exact, which on a truncated
     header has consumed every remaining byte; a header whose size is below its own length, or whose payload is longer than the
     rest, has been consumed and the rest stays;
   - StcoBox / Co64Box: `u8::parse` consumes one byte when there is one, `<[u8; 3]>::parse` nothing unless three are there; a
     version / flags mismatch is noticed after the four bytes are gone; the count likewise; overflow and a short array are
     noticed after the count is gone; "extra unparsed data" is raised when the array has been split off: the extra bytes stay. *)
From Coq Require Import List NArith Bool.
From Coq.Strings Require Import Byte.
From MS Require Import Base.Bytes Base.Outcome Mp4.Header Mp4.Box Mp4.BoxOps.
Import ListNotations.
Open Scope N_scope.

Definition unit_of {A} (r : res A) : res unit := rmap (fun _ => tt) r.

(* what Boxes::parse leaves in the buffer when it fails ([] when it succeeds) *)
Fixpoint boxes_resid (fuel : nat) (buf : bytes) : bytes :=
  match buf with
  | [] => []
  | _ =>
    match fuel with
    | O => buf
    | S fuel' =>
      match hdr_read buf with
      | None => []
      | Some (h, rest) =>
        match box_data_size h with
        | Ok None => []
        | Ok (Some n) => if n <=? N.of_nat (length rest) then boxes_resid fuel' (skipn (N.to_nat n) rest) else rest
        | _ => rest
        end
      end
    end
  end.

(* what StcoBox::parse / Co64Box::parse (+ the "extra unparsed data" check) leaves when it fails *)
Definition table_resid (w : N) (d : bytes) : bytes :=
  if Nat.ltb (length d) 1 then d else
  if Nat.ltb (length d) 4 then skipn 1 d else
  let d1 := skipn 4 d in
  if negb (be2n (firstn 1 d) =? 0) then d1 else
  if negb (be2n (firstn 3 (skipn 1 d)) =? 0) then d1 else
  if Nat.ltb (length d1) 4 then d1 else
  let count := be2n (firstn 4 d1) in
  let d2 := skipn 4 d1 in
  if U32MAX <? w * count then d2 else
  if (N.of_nat (length d2)) mod 4294967296 <? w * count then d2 else
  skipn (N.to_nat (w * count)) d2.

Definition force_cont_st (n : node) : node * res unit :=
  match n with
  | Raw h d =>
      match parse_boxes (boxes_fuel d) d with
      | Ok kids => (Cont h kids, Ok tt)
      | e => (Raw h (boxes_resid (boxes_fuel d) d), unit_of e)
      end
  | _ => (n, Ok tt)
  end.

Definition force_table_st (w : N) (n : node) : node * res unit :=
  match n with
  | Raw h d =>
      match parse_table w d with
      | Ok (c, e) => (Tab h w c e, Ok tt)
      | e => (Raw h (table_resid w d), unit_of e)
      end
  | _ => (n, Ok tt)
  end.

Fixpoint update_first_st (t : bytes) (kids : list node) (f : node -> node * res unit) : list node * res unit :=
  match kids with
  | [] => ([], EParse (MissingRequiredBox t))
  | k :: r =>
      if node_is t k then let '(k', o) := f k in (k' :: r, o)
      else let '(r', o) := update_first_st t r f in (k :: r', o)
  end.

Definition with_one_st (t : bytes) (kids : list node) (f : node -> node * res unit) : list node * res unit :=
  if Nat.ltb 1 (count_type t kids) then (kids, EParse InvalidBoxLayout)
  else update_first_st t kids f.

Definition in_child_st (t : bytes) (kids : list node) (f : list node -> list node * res unit) : list node * res unit :=
  with_one_st t kids (fun n =>
    let '(n', o) := force_cont_st n in
    match o with
    | Ok _ => let '(k', o') := f (kids_of n') in (set_kids n' k', o')
    | e => (n', e)
    end).

Definition table_count_st (w : N) (n : node) : node * res unit :=
  let '(n', o) := force_table_st w n in
  match o with
  | Ok _ => (n', unit_of (tab_count n'))
  | e => (n', e)
  end.

Definition stbl_co_st (kids : list node) : list node * res unit :=
  let have_stco := existsb (node_is t_stco) kids in
  let have_co64 := existsb (node_is t_co64) kids in
  if have_stco && have_co64 then (kids, EParse InvalidBoxLayout)
  else if have_stco then with_one_st t_stco kids (table_count_st 4)
  else with_one_st t_co64 kids (table_count_st 8).

Definition keep_st (ks : list node) : list node * res unit := (ks, Ok tt).

Definition chain_prefix_st (k : nat) (trak_kids : list node) : list node * res unit :=
  match k with
  | 0%nat => keep_st trak_kids
  | 1%nat => in_child_st t_mdia trak_kids keep_st
  | 2%nat => in_child_st t_mdia trak_kids (fun mk => in_child_st t_minf mk keep_st)
  | 3%nat => in_child_st t_mdia trak_kids (fun mk => in_child_st t_minf mk (fun nk => in_child_st t_stbl nk keep_st))
  | _ => in_child_st t_mdia trak_kids (fun mk => in_child_st t_minf mk (fun nk => in_child_st t_stbl nk stbl_co_st))
  end.

Fixpoint nth_trak_st (i : nat) (kids : list node) (f : list node -> list node * res unit) : list node * res unit :=
  match kids with
  | [] => ([], Ok tt)
  | k :: r =>
      if node_is t_trak k then
        let '(k', o) := force_cont_st k in
        match o with
        | Ok _ =>
            match i with
            | O => let '(tk, o') := f (kids_of k') in (set_kids k' tk :: r, o')
            | S i' => let '(r', o') := nth_trak_st i' r f in (k' :: r', o')
            end
        | e => (k' :: r, e)
        end
      else let '(r', o) := nth_trak_st i r f in (k :: r', o)
  end.

(* a sequence of calls as the harness drives them: it stops at the first call that fails; the tree is then the state that call
   left behind *)
Fixpoint run_ops_st (ops : list (nat * nat)) (step : nat) (kids : list node) : list node * option (nat * res unit) :=
  match ops with
  | [] => (kids, None)
  | (i, k) :: rest =>
      let '(kids', o) := nth_trak_st i kids (chain_prefix_st k) in
      match o with
      | Ok _ => run_ops_st rest (S step) kids'
      | e => (kids', Some (step, e))
      end
  end.
