(* C07 at the level of whole files (C06 and C07 composed).  Statement only; proof in Webp/WebpSpecProofs.v.
   If the modelled webpsan - container programme with the lossless validator Webp/Vp8l.v plugged in - accepts an input
   (any configuration, strict or seek-style reader, any fuel), then the input satisfies the container grammar of C06 in
   which EVERY lossless payload the grammar attaches dimensions to (every VP8L chunk, every losslessly compressed ALPH
   chunk, in still images and in animation frames) is decodable by the reference reading of the lossless specification
   (Vp8lSpec.vp8l_spec, the reading libwebp implements) for those dimensions.  [reference_ok w h b] is vp8l_spec w h b for
   0 < w, h <= 2^24 with fewer than 2^32 pixels, and true beyond (nothing is claimed for larger frames). *)
From Coq Require Import List NArith Bool.
From Coq.Strings Require Import Byte.
From MS Require Import Base.Bytes Base.Outcome Base.Prog Webp.Container Webp.Grammar Webp.Vp8l Webp.Vp8lSpec Webp.WebpSpecProofs.
Open Scope N_scope.

Theorem C07_file_level :
  forall (allow lenient : bool) (ms : N) (inp : input) (fuel : nat),
  webp_sanitize lossless_read allow lenient ms inp fuel = Ok tt -> webp_spec reference_ok allow inp = true.
Proof. exact webpsan_accepts_only_reference_decodable. Qed.
Print Assumptions C07_file_level.

(* the grammar is monotone in its lossless predicate (used above; also: a stricter validator accepts fewer files) *)
Theorem C07_grammar_monotone :
  forall (lok1 lok2 : N -> N -> bytes -> bool) (allow : bool) (inp : input),
  (forall w h b, lok1 w h b = true -> lok2 w h b = true) ->
  webp_spec lok1 allow inp = true -> webp_spec lok2 allow inp = true.
Proof. exact webp_spec_mono. Qed.
Print Assumptions C07_grammar_monotone.
