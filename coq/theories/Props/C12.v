(* C12 - the async result is independent of the Pending schedule.
   Statements only; proofs in Base/AsyncProofs.v.  Vocabulary: Base/Async.v (poll-level models: sch, pf, prim,
   drive_all, apoll_*, afut_buf, astep, run_sched, len_sched_ok), Base/AsyncSpec.v (psafe, seek_query_pure, at_end,
   sched_indep_core, len_indep, no_len).  A schedule is any list of booleans (true = that primitive poll answers
   Pending); [drive_all] re-polls until Ready. *)
From Coq Require Import List NArith ZArith Bool.
From MS Require Import Base.Bytes Base.Outcome Base.Cursor Base.Adapters Base.Async Base.AsyncSpec Base.AsyncProofs.
Import ListNotations.
Open Scope N_scope.

(* SeekSkipAdapter::poll_skip over a Pending AsyncSeek: every schedule, same value, same cursor as the all-Ready run *)
Theorem C12_poll_skip_sched_indep : forall (S : seeker), seek_query_pure S ->
  forall (amount : N) (s : sst S) (sc : sch),
    exists sc', drive_all (apoll_skip (pending_seeker S) amount) s sc =
                Some (fst (assa_skip (pending_seeker S) amount s), snd (assa_skip (pending_seeker S) amount s), sc').
Proof. exact apoll_skip_drive. Qed.
Print Assumptions C12_poll_skip_sched_indep.

Theorem C12_poll_position_sched_indep : forall (S : seeker) (s : sst S) (sc : sch),
    exists sc', drive_all (apoll_pos (pending_seeker S)) s sc =
                Some (fst (assa_pos (pending_seeker S) s), snd (assa_pos (pending_seeker S) s), sc').
Proof. exact apoll_pos_drive. Qed.
Print Assumptions C12_poll_position_sched_indep.

(* finding D7: SeekSkipAdapter::poll_stream_len is NOT schedule independent: with the restoring seek suspended it
   returns the right length and leaves the cursor at the end *)
Theorem C12_poll_stream_len_refuted : exists (data : bytes) (pos : N) (sc : sch),
  let A := pending_seeker (std_cursor U64MAXN) in
  let s := {| cdata := data; cpos := pos |} in
  exists v s' sc', drive_all (apoll_len A) s sc = Some (v, s', sc') /\
    v = fst (assa_len A s) /\ v = Ok (clen s) /\
    cpos (snd (assa_len A s)) = pos /\ cpos s' = clen s /\ cpos s' <> pos.
Proof. exact apoll_len_refuted. Qed.
Print Assumptions C12_poll_stream_len_refuted.

(* ... and is schedule independent on the complement of that defect class: every schedule that does not answer
   Pending to the third seek, or a cursor already at the end (no third seek) *)
Theorem C12_poll_stream_len_sched_indep_except_D7 : forall (S : seeker), seek_query_pure S ->
  forall (s : sst S) (sc : sch),
    len_sched_ok (bits sc) = true \/ at_end S s ->
    exists sc', drive_all (apoll_len (pending_seeker S)) s sc =
                Some (fst (assa_len (pending_seeker S) s), snd (assa_len (pending_seeker S) s), sc').
Proof. exact apoll_len_drive. Qed.
Print Assumptions C12_poll_stream_len_sched_indep_except_D7.

(* futures BufReader (poll_read / poll_fill_buf / poll_skip / poll_stream_position; poll_stream_len if the inner one is)
   over ANY schedule-independent inner reader *)
Theorem C12_bufreader_polls_sched_indep : forall (cap : N) (A : areader),
  sched_indep_core A -> sched_indep_core (afut_buf cap A) /\ (len_indep A -> len_indep (afut_buf cap A)).
Proof. exact afut_buf_polls. Qed.
Print Assumptions C12_bufreader_polls_sched_indep.

(* the bases: SeekSkipAdapter over a Pending AsyncSeek, an AsyncSkip-native Pending reader, the forwarding impls *)
Theorem C12_bases_sched_indep : forall (S : seeker) (R : reader), seek_query_pure S ->
  sched_indep_core (aseek_adapter (pending_seeker S)) /\
  sched_indep_core (pending_reader R) /\ len_indep (pending_reader R) /\
  (forall A, sched_indep_core A -> sched_indep_core (afwd A)) /\ (forall A, len_indep A -> len_indep (afwd A)).
Proof. exact bases_sched_indep. Qed.
Print Assumptions C12_bases_sched_indep.

(* lifted to every adaptive client programme (reads, read_exacts through futures' ReadExact, skips, position and
   - where the reader's length query is schedule independent - length queries), for every schedule *)
Theorem C12_prog_sched_indep : forall (A : areader), sched_indep_core A ->
  forall (X : Type) (p : prog X), (len_indep A \/ no_len p) ->
  forall (s : rst (ard A)) (sc : sch),
    exists sc', run_sched A p s sc = Some (fst (run_sync (fut_view (ard A)) p s), snd (run_sync (fut_view (ard A)) p s), sc').
Proof. exact prog_sched_indep. Qed.
Print Assumptions C12_prog_sched_indep.
