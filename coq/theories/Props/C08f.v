(* C08 at the level of whole files (C06_complete and C08_model_complete composed).  Statement only; proof in
   Webp/WebpSpecProofs.v.  An input that satisfies the container grammar of C06 and whose lossless payloads (VP8L chunks,
   losslessly compressed ALPH chunks; stills and animation frames, dimensions below 2^32 pixels) are all decodable by the
   reference reading of the lossless specification and are not one of the two documented strictness cases is ACCEPTED by
   the modelled webpsan (any configuration, strict or seek-style reader whose seek bound covers the input, fuel
   ilen/8 + 1). *)
From Coq Require Import List NArith Bool.
From Coq.Strings Require Import Byte.
From MS Require Import Base.Bytes Base.Outcome Base.Prog Webp.Container Webp.Grammar Webp.Vp8l Webp.Vp8lSpec Webp.WebpSpecProofs.
Open Scope N_scope.

Theorem C08_file_level :
  forall (allow lenient : bool) (ms : N) (inp : input) (fuel : nat),
  ilen inp <= ms -> (N.to_nat (ilen inp / 8) < fuel)%nat ->
  webp_spec decodable_ok allow inp = true ->
  webp_sanitize lossless_read allow lenient ms inp fuel = Ok tt.
Proof. exact webpsan_accepts_decodable_files. Qed.
Print Assumptions C08_file_level.
