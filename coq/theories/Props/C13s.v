(* C13, the streaming part of webpsan: the lossless validator reads its input through BitBufReader while it validates; a failing
   inner read of that reader's source.  Statements only; model Webp/BitBufFault.v, proofs Webp/BitBufFaultProofs.v.
   [run_buf_f k e p st]: the consumer programme p over the buffered reader whose source fails its inner read number k with
   error kind e; [reads_of p st]: the number of inner reads the fault-free run issues; [run_buf]: the fault-free run. *)
From Coq Require Import List NArith Bool.
From MS Require Import Base.Bytes Base.Outcome Webp.BitBuf Webp.BitBufSpec Webp.BitBufRun Webp.BitBufFault Webp.BitBufFaultProofs.
Open Scope N_scope.

(* EVERY consumer programme (any sequence of reads, bits, prefix-code symbols, LZ77 values, read-ahead checks, adaptively chosen),
   every capacity, every short-read pattern, every failing read index and kind: Io(e) - never a value, a parse error or a panic -
   exactly when the fault-free run reaches the failing read; the fault-free result otherwise *)
Theorem C13_fault_in_stream : forall (A : Type) (k : N) (e : ioerr) (p : cprog A) (st : bbr), nreads st <= k ->
  (k < reads_of p st -> run_buf_f k e p st = EIo e) /\
  (reads_of p st <= k -> run_buf_f k e p st = run_buf p st).
Proof. intros A k e p st. exact (fault_in_stream k e p st). Qed.
Print Assumptions C13_fault_in_stream.

Theorem C13_stream_fault_never_swallowed : forall (A : Type) (k : N) (e : ioerr) (p : cprog A) (src : source) (capacity : N),
  k < reads_of p (with_capacity src capacity) -> run_buf_f k e p (with_capacity src capacity) = EIo e.
Proof. intros A k e p src capacity. exact (fault_never_swallowed k e p src capacity). Qed.
Print Assumptions C13_stream_fault_never_swallowed.
