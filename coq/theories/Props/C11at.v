(* C11 for a reader that is already advanced when it is handed to the sanitizer (the caller read a k-byte prefix first).
   Statements only; proofs in Base/StackProofsAt.v.  Positions the sanitizer works with are the reader's own (absolute). *)
From Coq Require Import List NArith ZArith Bool.
From MS Require Import Base.Bytes Base.Outcome Base.Cursor Base.Adapters Base.Prog Base.StackReader Base.StackSpec
     Base.StackProofsAt Mp4.San.
Open Scope N_scope.

(* every view started at position k of the data: every programme gives the result it gives over the ideal cursor started at k *)
Theorem C11_stack_refines_cursor_at :
  forall (own_cap : N) (stdf : bool) (ms : N) (st : stk) (data : bytes) (inp : input) (k : N),
  1 <= own_cap -> stk_ok st -> blen data <= I64MAX -> ms_ok (blen data) ms -> inp_is inp data -> k <= blen data ->
  forall (A : Type) (p : Prog.prog A),
    fst (Prog.run (stack_reader own_cap stdf ms st) p (stack_init_at k ms st data)) = fst (Prog.run (Prog.cursor inp true ms) p k).
Proof. exact view_refines_cursor_at. Qed.
Print Assumptions C11_stack_refines_cursor_at.

(* the MP4 sanitizer: sync or async entry point, any two stacks, the same starting position: the same result *)
Theorem C11_same_result_mp4_at :
  forall (cfg : config) (fuel : nat) (ms : N) (st1 st2 : stk) (e1 e2 : bool) (data : bytes) (k : N),
  stk_ok st1 -> stk_ok st2 -> blen data <= I64MAX -> ms_ok (blen data) ms -> k <= blen data ->
  fst (Prog.run (mp4_view e1 ms st1) (sanitize_prog cfg fuel) (mp4_view_init_at k e1 ms st1 data)) =
  fst (Prog.run (mp4_view e2 ms st2) (sanitize_prog cfg fuel) (mp4_view_init_at k e2 ms st2 data)).
Proof. exact mp4_same_result_at. Qed.
Print Assumptions C11_same_result_mp4_at.
