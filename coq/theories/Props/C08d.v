(* C08, finding D8: libwebp's muxer writes a lossless image with transparency as VP8X[alpha flag] + VP8L with no ALPH chunk; webpsan
   rejects it.  This file shows that the rejection is the chunk grammar of C06 itself - "the alpha flag requires ALPH in a still image",
   "ALPH never combined with VP8L" - so that repairing D8 in the code would break C06 as it is given: in a still image read under the
   alpha flag, an image that starts with a VP8L chunk (or with anything but ALPH) is not in the grammar, whatever the lossless
   predicate, the dimensions and the chunks that follow. *)
From Coq Require Import List NArith Bool.
From MS Require Import Base.Bytes Base.Outcome Base.Prog Webp.Grammar.
Import ListNotations.
Open Scope N_scope.

Theorem C08_D8_is_the_grammar_of_C06 :
  forall (lossless_ok : N -> N -> bytes -> bool) (inp : input) (w h : N) (c : wchunk) (r : list wchunk),
  w_name c = gVP8L ->
  image_ok lossless_ok inp true true w h (c :: r) = None.
Proof.
  intros lok inp w h c r Hn. unfold image_ok. rewrite Hn.
  assert (E : geq gVP8L gALPH = false) by reflexivity. rewrite E. reflexivity.
Qed.
Print Assumptions C08_D8_is_the_grammar_of_C06.

(* ... while without the alpha flag the same chunk is the image *)
Theorem C08_vp8l_still_without_flag :
  forall (lossless_ok : N -> N -> bytes -> bool) (inp : input) (w h : N) (c : wchunk) (r : list wchunk),
  w_name c = gVP8L -> vp8l_ok lossless_ok inp (Some (w, h)) c = true ->
  image_ok lossless_ok inp false false w h (c :: r) = Some r.
Proof.
  intros lok inp w h c r Hn Hv. unfold image_ok.
  replace (geq (w_name c) gALPH) with false by (rewrite Hn; reflexivity).
  replace (geq (w_name c) gVP8) with false by (rewrite Hn; reflexivity).
  replace (geq (w_name c) gVP8L) with true by (rewrite Hn; reflexivity).
  rewrite Hv. reflexivity.
Qed.
Print Assumptions C08_vp8l_still_without_flag.
