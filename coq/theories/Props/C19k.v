(* C19 / C07 / C08: the LZ77 prefix-value arithmetic of the models is the arithmetic BitBufReader::buf_read_lz77 has in the source
   now (Gen/Lz77Kernel.v is regenerated from webpsan/src/parse/bitstream.rs on every run).  Statements only; proofs in
   Webp/Lz77KernelProofs.v (a checked sweep over the 36 symbols of the second match arm, lifted). *)
From Coq Require Import List NArith Bool.
From MS Require Import Base.Bytes Base.Outcome Webp.BitBufSpec Gen.Lz77Kernel Webp.Lz77KernelProofs.
Open Scope N_scope.

Theorem C19_lz77_kernel_matches :
  lz77_direct_last_src = 3 /\ lz77_max_symbol_src = 39 /\
  forall c, 4 <= c -> c <= 39 ->
    lz77_extra_src c = (c - 2) / 2 /\ lz77_offset_src c = (2 + c mod 2) * 2 ^ ((c - 2) / 2).
Proof. exact lz77_kernel_matches. Qed.
Print Assumptions C19_lz77_kernel_matches.

Theorem C19_lz77_extra_bits_is_src : forall c,
  lz77_extra_bits c = if c <=? lz77_direct_last_src then 0 else if c <=? lz77_max_symbol_src then lz77_extra_src c else 0.
Proof. exact lz77_extra_bits_is_src. Qed.
Print Assumptions C19_lz77_extra_bits_is_src.

Theorem C19_ideal_read_lz77_is_src : forall c bits, 4 <= c -> c <= 39 -> lz77_extra_src c <= slen bits ->
  ideal_read_lz77 c bits =
  (Ok (lz77_offset_src c + num_of_bits (firstn (N.to_nat (lz77_extra_src c)) bits) + 1), skipn (N.to_nat (lz77_extra_src c)) bits).
Proof. exact ideal_read_lz77_is_src. Qed.
Print Assumptions C19_ideal_read_lz77_is_src.
