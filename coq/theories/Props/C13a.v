(* C13 at the poll level of the asynchronous entry point (C12 composed with C13).  The reader below mp4san::sanitize_async is an
   AsyncSkip-native wrapper that may answer Pending at every poll, over an ARBITRARY synchronous reader R (it may fail by itself, at
   any operation, with any error kind).  [san_reader R] is the synchronous view of the sanitizer's BufReader(32) over R.
   Statements only; proofs in Base/AsyncSanFault.v. *)
From Coq Require Import List NArith ZArith Bool.
From MS Require Import Base.Bytes Base.Outcome Base.Cursor Base.Adapters Base.Async Base.AsyncSpec Base.AsyncSan Base.AsyncSanFault
  Base.ProgSpec Mp4.San Gen.Consts.
From MS Require Base.Prog.
Open Scope N_scope.

(* under EVERY Pending schedule the run completes, and the first error answer decides the result as in the synchronous run *)
Theorem C13_async_reader_error_propagates_mp4 : forall (cfg : config) (fuel : nat) (R : reader)
  (s : bst (rst (ard (pending_reader R)))) (sc : sch) (o : Prog.op) (e : ioerr),
  first_err (san_reader R) (sanitize_prog cfg fuel) s = Some (o, e) ->
  exists r s' sc',
    run_san_sched BOXHEADER_MAX_SIZE (pending_reader R) (sanitize_prog cfg fuel) s sc = Some (r, s', sc') /\
    (r = EIo e \/ (e = EUnexpectedEof /\ r = EParse TruncatedBox)).
Proof. exact async_reader_error_propagates_mp4. Qed.
Print Assumptions C13_async_reader_error_propagates_mp4.

(* no schedule invents or hides a result: the asynchronous result IS the synchronous one *)
Theorem C13_async_same_result_as_sync : forall (cfg : config) (fuel : nat) (R : reader)
  (s : bst (rst (ard (pending_reader R)))) (sc : sch),
  exists s' sc',
    run_san_sched BOXHEADER_MAX_SIZE (pending_reader R) (sanitize_prog cfg fuel) s sc =
    Some (fst (Prog.run (san_reader R) (sanitize_prog cfg fuel) s), s', sc').
Proof. exact async_no_error_same_result. Qed.
Print Assumptions C13_async_same_result_as_sync.
