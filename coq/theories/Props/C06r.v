(* C06, "all provided input types": the verdict of the WebP sanitizer does not depend on how the reader skips - strict (a skip past
   the end fails) or seek-style (it succeeds, up to any seek limit that covers the input) - nor on that limit.  A corollary of
   C06_accept_iff_grammar (both sides equal the grammar's verdict); stated on its own because it is the part of the property's
   quantifier that the grammar theorem hides. *)
From Coq Require Import List NArith Bool.
From Coq.Strings Require Import Byte.
From MS Require Import Base.Bytes Base.Outcome Base.Prog Webp.Container Webp.Grammar Webp.ContainerProofsReaders.
Open Scope N_scope.

Theorem C06_readers_agree :
  forall (lossless : N -> N -> bytes -> res unit) (allow l1 l2 : bool) (ms1 ms2 : N) (inp : input) (fuel : nat),
  ilen inp <= ms1 -> ilen inp <= ms2 -> (N.to_nat (ilen inp / 8) < fuel)%nat ->
  is_ok (webp_sanitize lossless allow l1 ms1 inp fuel) = is_ok (webp_sanitize lossless allow l2 ms2 inp fuel).
Proof. exact webp_readers_agree. Qed.
Print Assumptions C06_readers_agree.
