(* C07 - WebP: no lossless stream is accepted that the reference decoder rejects.
   Statements only; proofs in Webp/Vp8lProofs*.v.
     model          Webp/Vp8l.v      LosslessImage::read and everything below it, over the ideal LSB-first bit source
     specification  Webp/Vp8lSpec.v  the header phase as the WebP lossless specification / libwebp 1.3.1 define it: a
                                     MATERIALISING decoder (pixels, colour cache), Kraft-sum validity, canonical tables;
                                     vp8l_spec = reference reading, vp8l_spec_strict = + webpsan's two documented choices
     dims w h       0 < w <= 2^24, 0 < h <= 2^24, w*h < 2^32: what a VP8X canvas / ANMF frame / 14-bit VP8L header carries
   Every theorem is for ALL byte strings and all such dimensions; no size, depth or step bound; fuel is internal and
   proved sufficient (C07_model_total). *)
From Coq Require Import List NArith ZArith Bool.
From Coq.Strings Require Import Byte.
From MS Require Import Base.Bytes Base.Outcome Webp.Huffman Webp.HuffmanSpec Webp.BitBufSpec Webp.Vp8l Webp.Vp8lSpec
  Webp.Vp8lProofs Webp.Vp8lProofsPixels Webp.Vp8lProofsTop.
Import ListNotations.
Open Scope N_scope.

(* the model never panics, never reports an I/O error, never runs out of fuel: Ok or a parse error *)
Theorem C07_model_total : forall w h body, dims w h ->
  lossless_read w h body = Ok tt \/ exists e, lossless_read w h body = EParse e.
Proof. exact model_total. Qed.
Print Assumptions C07_model_total.

(* the model accepts EXACTLY the strict reading of the specification (simulation validator <-> materialising decoder) *)
Theorem C07_model_is_strict_spec : forall w h body, dims w h ->
  is_ok (lossless_read w h body) = vp8l_spec_strict w h body.
Proof. exact model_is_strict_spec. Qed.
Print Assumptions C07_model_is_strict_spec.

Theorem C07_strict_implies_reference : forall w h body, vp8l_spec_strict w h body = true -> vp8l_spec w h body = true.
Proof. exact strict_implies_reference. Qed.
Print Assumptions C07_strict_implies_reference.

(* C07: accepted by webpsan's validator => the reference reading decodes the header phase *)
Theorem C07_model_sound : forall w h body, dims w h ->
  lossless_read w h body = Ok tt -> vp8l_spec w h body = true.
Proof. exact model_sound. Qed.
Print Assumptions C07_model_sound.

(* the violation classes named in the property, one by one: a stream on which the specification reports the rule is
   not accepted *)
Theorem C07_no_duplicate_transform : forall w h body, dims w h ->
  vp8l_spec_why false w h body = Some RDuplicateTransform -> lossless_read w h body <> Ok tt.
Proof. intros w h body. exact (model_rejects_reference_failures w h body RDuplicateTransform). Qed.
Print Assumptions C07_no_duplicate_transform.

Theorem C07_no_bad_cache_size : forall w h body, dims w h ->
  vp8l_spec_why false w h body = Some RCacheBits -> lossless_read w h body <> Ok tt.
Proof. intros w h body. exact (model_rejects_reference_failures w h body RCacheBits). Qed.
Print Assumptions C07_no_bad_cache_size.

Theorem C07_no_overlong_symbol_count : forall w h body, dims w h ->
  vp8l_spec_why false w h body = Some RSymbolCount -> lossless_read w h body <> Ok tt.
Proof. intros w h body. exact (model_rejects_reference_failures w h body RSymbolCount). Qed.
Print Assumptions C07_no_overlong_symbol_count.

Theorem C07_no_repeat_overrun : forall w h body, dims w h ->
  vp8l_spec_why false w h body = Some RRepeatOverrun -> lossless_read w h body <> Ok tt.
Proof. intros w h body. exact (model_rejects_reference_failures w h body RRepeatOverrun). Qed.
Print Assumptions C07_no_repeat_overrun.

Theorem C07_no_incomplete_code : forall w h body, dims w h ->
  vp8l_spec_why false w h body = Some RCodeIncomplete \/ vp8l_spec_why false w h body = Some RCodeOverSubscribed \/
  vp8l_spec_why false w h body = Some RCodeEmpty -> lossless_read w h body <> Ok tt.
Proof.
  intros w h body HD [H|[H|H]]; eapply model_rejects_reference_failures; eassumption.
Qed.
Print Assumptions C07_no_incomplete_code.

Theorem C07_no_symbol_outside_alphabet : forall w h body, dims w h ->
  vp8l_spec_why false w h body = Some RSymbolOutsideAlphabet -> lossless_read w h body <> Ok tt.
Proof. intros w h body. exact (model_rejects_reference_failures w h body RSymbolOutsideAlphabet). Qed.
Print Assumptions C07_no_symbol_outside_alphabet.

Theorem C07_no_backref_before_start : forall w h body, dims w h ->
  vp8l_spec_why false w h body = Some RBackrefBeforeStart -> lossless_read w h body <> Ok tt.
Proof. intros w h body. exact (model_rejects_reference_failures w h body RBackrefBeforeStart). Qed.
Print Assumptions C07_no_backref_before_start.

Theorem C07_no_backref_past_end : forall w h body, dims w h ->
  vp8l_spec_why false w h body = Some RBackrefPastEnd -> lossless_read w h body <> Ok tt.
Proof. intros w h body. exact (model_rejects_reference_failures w h body RBackrefPastEnd). Qed.
Print Assumptions C07_no_backref_past_end.

(* invalid predictor: a rule of the strict reading only (libwebp implements modes 14, 15 and masks green & 15) *)
Theorem C07_no_invalid_predictor : forall w h body, dims w h ->
  vp8l_spec_why true w h body = Some RStrictPredictor -> lossless_read w h body <> Ok tt.
Proof. intros w h body. exact (model_rejects_strict_failures w h body RStrictPredictor). Qed.
Print Assumptions C07_no_invalid_predictor.

(* a truncated stream is not accepted either *)
Theorem C07_no_truncated : forall w h body, dims w h ->
  vp8l_spec_why false w h body = Some RTruncated -> lossless_read w h body <> Ok tt.
Proof. intros w h body. exact (model_rejects_reference_failures w h body RTruncated). Qed.
Print Assumptions C07_no_truncated.

(* webpsan's DISTANCE_MAP (pairs) and libwebp's kCodeToPlane (packed nibbles) give the same distances *)
Theorem C07_distance_map_eq : forall dcode width, 1 <= dcode -> width < 2 ^ 29 ->
  distance_of dcode width = Ok (plane_code_to_distance width dcode).
Proof. exact distance_of_is_plane_code. Qed.
Print Assumptions C07_distance_map_eq.

(* the model reads through the ideal accessors of BitBufSpec.v; C19 (C19_read_is_ideal, C19_readahead_sufficient,
   C19_verdict_capacity_independent) transports them to the 4096-byte BitBufReader *)
Theorem C07_accessors_are_ideal :
  (forall w n s, rd w n s = of_ideal (ideal_read w n s)) /\
  (forall s, rd_bit s = of_ideal (ideal_read_bit s)) /\
  (forall c s, rd_lz77 c s = of_ideal (ideal_read_lz77 c s)).
Proof. exact accessors_are_ideal. Qed.
Print Assumptions C07_accessors_are_ideal.
