(* C10 / C13, MP4: the Level-B reader refines the ideal cursor.  Statements only; proofs in Base/BufLevelProofs.v and
   Mp4/SanBProofs.v.
   Level B (Base/BufLevel.v) is the model of what the sanitizer really talks to: futures BufReader of capacity 32 with
   mediasan's AsyncSkip impl over the input; running a programme over it yields the INNER operation trace (read / skip /
   stream_position / stream_len on the input) that C10 compares exactly with the metered implementation and whose
   indices C13's fault injection uses.  The theorems of C01-C05, C09, C10, C13, C14 speak of the run over the ideal cursor
   (fill_buf / read_exact / skip / position / length as single abstract operations).  These two theorems connect them. *)
From Coq Require Import List NArith Bool.
From MS Require Import Base.Bytes Base.Outcome Base.Prog Base.BufLevel Base.BufLevelProofs Mp4.San Mp4.SanB Mp4.SanBProofs.
Open Scope N_scope.

(* every programme, every capacity >= 1, strict or seek-style inner stream, in-memory inputs (ilen <= i64::MAX) whose
   seek bound covers the input: same result *)
Theorem C10_level_b_refines_cursor :
  forall (inp : input) (lenient : bool) (ms cap : N), 1 <= cap -> ilen inp <= I64MAX' -> ilen inp <= ms ->
  forall (A : Type) (p : prog A),
    fst (run (level_b inp lenient ms cap) p (lb_init None)) = fst (run (cursor inp lenient ms) p 0).
Proof. intros inp lenient ms cap H1 H2 H3 A p. exact (level_b_refines_cursor inp lenient ms cap H1 H2 H3 p). Qed.
Print Assumptions C10_level_b_refines_cursor.

(* the MP4 sanitizer: the fault-free Level-B run (whose trace is compared with the implementation) returns what the
   abstract model returns *)
Theorem C10_mp4_level_b_is_model :
  forall (cfg : config) (lenient : bool) (ms : N) (inp : input) (fuel : nat),
  ilen inp <= I64MAX' -> ilen inp <= ms ->
  fst (fst (mp4_sanitize_b cfg lenient ms inp fuel None)) = mp4_sanitize cfg lenient ms inp fuel.
Proof. exact mp4_sanitize_b_is_model. Qed.
Print Assumptions C10_mp4_level_b_is_model.
