(* C10 - work and memory are bounded by metadata size; media is never inspected (MP4 half; the WebP half is added with
   the webp model).  Statements only; proofs in Base/ProgProofs.v (generic) and Mp4/SanProgProofs.v.
   Vocabulary: Base/Prog.v (run, run_trace, cursor), Base/ProgSpec.v (trace_of, read_span, agree_on, covered, all_steps),
   Mp4/TraceSpec.v (the monitor mp4_mstep of allowed operation sequences; read_confined, alloc_bounded),
   Mp4/San.v (sanitize_prog, mp4_sanitize), Mp4/Spec.v (tiling, tbox, is, FTYP, MOOV). *)
From Coq Require Import List NArith Bool.
From Coq.Strings Require Import Byte.
From MS Require Import Base.Bytes Base.Outcome Base.Prog Base.ProgSpec Base.ProgProofs Mp4.San Mp4.Spec Mp4.TraceSpec Mp4.SanProgProofs
  Mp4.SanTiledProofs.
Import ListNotations.
Open Scope N_scope.

(* generic non-interference, once for all programmes: two inputs of equal length that agree on every byte interval
   read by the run on the first give the same run *)
Theorem C10_noninterference_generic : forall (A : Type) (p : prog A) (i1 i2 : input) (lenient : bool) (max_seek pos : N),
  ilen i1 = ilen i2 ->
  agree_on i1 i2 (trace_of (cursor i1 lenient max_seek) (fun s => s) p pos) ->
  run (cursor i2 lenient max_seek) p pos = run (cursor i1 lenient max_seek) p pos.
Proof. exact (@noninterference). Qed.
Print Assumptions C10_noninterference_generic.

(* every read of every run on the ideal cursor is one of the <= 4 header reads (4, 4, [8], [16] bytes, contiguous from
   the position reported by stream_position at the start of the loop iteration, inside its 32-byte window) or the read
   of exactly the n <= max(max_metadata_size, 1024) bytes allocated just before; and the whole operation sequence is
   the one Mp4/TraceSpec.v allows (the monitor never refuses) *)
Theorem C10_reads_confined : forall (cfg : config) (fuel : nat) (inp : input) (lenient : bool) (max_seek : N),
  let B := N.max (max_metadata_size cfg) 1024 in
  let F := 2 * (max_metadata_size cfg + 1024 + 64) in
  all_steps (mp4_mstep B F) (cursor inp lenient max_seek) (read_confined B) (sanitize_prog cfg fuel) 0 MHead.
Proof. exact reads_confined. Qed.
Print Assumptions C10_reads_confined.

(* every allocation event is at most max(max_metadata_size, 1024) bytes and is issued after the limit check (the monitor
   allows an allocation only where a payload is about to be read); the final allocation of the output is at most
   2 * (max_metadata_size + 1024 + 64) bytes *)
Theorem C10_mp4_alloc_bounded : forall (cfg : config) (fuel : nat) (inp : input) (lenient : bool) (max_seek : N),
  let B := N.max (max_metadata_size cfg) 1024 in
  let F := 2 * (max_metadata_size cfg + 1024 + 64) in
  all_steps (mp4_mstep B F) (cursor inp lenient max_seek) (alloc_bounded B F) (sanitize_prog cfg fuel) 0 MHead.
Proof. exact allocs_bounded. Qed.
Print Assumptions C10_mp4_alloc_bounded.

(* media is never inspected: inputs of equal length that differ only in bytes which the run on the first passes over
   with a (successful) skip give the same result *)
Theorem C10_media_noninterference : forall (cfg : config) (fuel : nat) (i1 i2 : input) (lenient : bool) (max_seek : N),
  ilen i1 = ilen i2 ->
  (forall j, iget i1 j <> iget i2 j ->
     exists n q, In (OSkip n, q) (trace_of (cursor i1 lenient max_seek) (fun s => s) (sanitize_prog cfg fuel) 0) /\
                 q <= j < q + covered i1 lenient max_seek (OSkip n) q) ->
  mp4_sanitize cfg lenient max_seek i2 fuel = mp4_sanitize cfg lenient max_seek i1 fuel.
Proof. exact media_noninterference. Qed.
Print Assumptions C10_media_noninterference.

(* ... and through the specification's tiling (Mp4/Spec.v): on an input that is a sequence of complete top-level boxes
   bs, with enough fuel, the result depends only on the length, on the HEADER bytes of the boxes and on the payloads of
   the ftyp and moov boxes: changing any payload byte of any other box (mdat, free, skip, meta, meco, unknown) changes
   nothing *)
Theorem C10_media_noninterference_tiled : forall (cfg : config) (fuel : nat) (i1 i2 : input) (lenient : bool) (max_seek : N)
                                                 (bs : list tbox),
  ilen i1 <= max_seek -> max_seek <= 18446744073709551615 ->
  (forall t, cumulative_mdat_box_size cfg = Some t -> t <= 4294967295) ->
  (N.to_nat (ilen i1 / 8) < fuel)%nat ->
  ilen i1 = ilen i2 ->
  tiling (cumulative_mdat_box_size cfg) i1 = Some bs ->
  (forall b j, In b bs -> tb_off b <= j < tb_off b + tb_hlen b -> iget i1 j = iget i2 j) ->
  (forall b j, In b bs -> is FTYP b || is MOOV b = true -> tb_off b + tb_hlen b <= j < tb_off b + tb_size b ->
               iget i1 j = iget i2 j) ->
  mp4_sanitize cfg lenient max_seek i2 fuel = mp4_sanitize cfg lenient max_seek i1 fuel.
Proof. exact media_noninterference_tiled. Qed.
Print Assumptions C10_media_noninterference_tiled.

(* the returned metadata, padding included, is bounded (former finding D6, repaired in /repo by 3c176e3: the padding
   box is no larger than the metadata it follows) *)
Theorem C10_metadata_size_bounded : forall (cfg : config) (fuel : nat) (inp : input) (lenient : bool) (max_seek : N)
                                           (md : bytes) (z : N) (sp : span),
  mp4_sanitize cfg lenient max_seek inp fuel = Ok {| o_metadata := Some (md, z); o_data := sp |} ->
  N.of_nat (length md) + z <= 2 * (max_metadata_size cfg + 1024 + 64).
Proof. exact metadata_size_bounded. Qed.
Print Assumptions C10_metadata_size_bounded.
