(* C09 - Totality: every input yields Ok or Err - never a panic, abort or hang (the modelled logic).
   Statements only; proofs in Mp4/LoopProofsTotal*.v (+ Mp4/BoxProofs.v for the moov tree). *)
From Coq Require Import List NArith Bool.
From MS Require Import Base.Bytes Base.Outcome Base.Prog Mp4.Header Mp4.Box Mp4.San Mp4.LoopProofsTotalInst.
Open Scope N_scope.

(* every Panic site of the mp4 model (u64 additions, len - pos, the u32 sum of entry counts, split_to, unreachable!
   states of the lazy tree) is unreachable, for every input, reader kind and configuration with a limit below 4 GiB *)
Theorem C09_mp4_no_panic :
  forall (cfg : config) (lenient : bool) (inp : input) (fuel : nat),
  max_metadata_size cfg < 4294967296 -> ilen inp <= U64MAX ->
  (forall t, cumulative_mdat_box_size cfg = Some t -> t <= U32MAX) ->
  forall n, mp4_sanitize cfg lenient U64MAX' inp fuel <> Panic n.
Proof. exact C09_mp4_toplevel_no_panic. Qed.
Print Assumptions C09_mp4_no_panic.

(* termination: the top-level loop needs at most ilen/8 + 1 iterations (every box takes at least 8 bytes); the
   moov tree walk, the table rewrite and the header reads are fuelled internally with bounds proved sufficient *)
Theorem C09_mp4_terminates :
  forall (cfg : config) (lenient : bool) (inp : input) (fuel : nat),
  max_metadata_size cfg < 4294967296 -> ilen inp <= U64MAX ->
  (forall t, cumulative_mdat_box_size cfg = Some t -> t <= U32MAX) ->
  (N.to_nat (ilen inp / 8) < fuel)%nat ->
  mp4_sanitize cfg lenient U64MAX' inp fuel <> OutOfFuel.
Proof. exact C09_mp4_toplevel_terminates. Qed.
Print Assumptions C09_mp4_terminates.
