(* C17 - WebP chunk codec round trip.  Statements only; proofs in Webp/PrimProofs.v.
   prim_parse / prim_put / chunk_parse / chunk_put are the models at [cur], the accessor table and flag bits
   RE-READ from webpsan/src/parse/*.rs on every run (Gen/WebpPrimGen.v).  The two side conditions
   [tbl_le cur = true] (every multi-byte getter and putter of the table is the little-endian one) and
   [tbl_masks cur = true] (no declared flag bit is a reserved bit) are closed by computation ([eq_refl]); if the
   source pairs a big-endian accessor with a little-endian one (finding D3: u16 => (get_u16, put_u16_le)) this
   file does not compile, which is the verdict "violated" (witness in Webp/PrimRefuted.v). *)
From Coq Require Import List NArith ZArith Bool.
From Coq.Strings Require Import Byte.
From MS Require Import Base.Bytes Base.Outcome Webp.Prim Webp.Chunks Webp.PrimSpec Webp.PrimProofs.
Import ListNotations.
Open Scope N_scope.

Theorem C17_prim_roundtrip :
  (forall (p : prim) (v : pval) (r : bytes), prim_wf p v = true ->
     prim_parse p (prim_put p v ++ r) = Ok (v, r) /\
     length (prim_put p v) = prim_len p /\
     prim_put p v = spec_encode p v)
  /\ (forall (p : prim) (l : bytes) (v : pval) (r : bytes), prim_parse p l = Ok (v, r) ->
        prim_wf p v = true /\ l = prim_put p v ++ r).
Proof. exact (prim_roundtrip_t cur eq_refl). Qed.
Print Assumptions C17_prim_roundtrip.

Theorem C17_chunk_roundtrip :
  (forall (c : chunk) (vs : list pval) (r : bytes), chunk_wf c vs = true ->
     chunk_parse c (chunk_put c vs ++ r) = Ok (vs, r) /\ length (chunk_put c vs) = chunk_len c)
  /\ (forall (c : chunk) (l : bytes) (vs : list pval) (r : bytes), chunk_parse c l = Ok (vs, r) ->
        chunk_wf c vs = true /\ l = chunk_put c vs ++ r)
  /\ (forall (c : chunk) (l : bytes) (vs : list pval) (r : bytes), length l = chunk_len c ->
        chunk_parse c l = Ok (vs, r) -> r = [] /\ chunk_put c vs = l).
Proof. exact (chunk_roundtrip_t cur eq_refl). Qed.
Print Assumptions C17_chunk_roundtrip.

Theorem C17_reserved_is_error :
  (forall (k : nat) (l : bytes), (k <= length l)%nat ->
     reserved_parse k l = if forallb (fun b => b2n b =? 0) (firstn k l) then Ok (tt, skipn k l) else EParse WInvalidInput)
  /\ (forall (p : prim) (b : byte) (r : bytes), N.land (b2n b) (spec_reserved p) <> 0 ->
        prim_parse p (b :: r) = EParse WInvalidInput)
  /\ (forall (p : prim) (l : bytes), (prim_len p <= length l)%nat -> is_panic (prim_parse p l) = false)
  /\ (forall (c : chunk) (l : bytes), (chunk_len c <= length l)%nat ->
        is_panic (chunk_parse c l) = false /\
        (reserved_violation c l = true -> chunk_parse c l = EParse WInvalidInput)).
Proof. exact (reserved_is_error_t cur eq_refl). Qed.
Print Assumptions C17_reserved_is_error.
