(* C18 - canonical prefix codes are built and decoded exactly as the specification defines.
   Statements only; proofs in Webp/HuffmanProofs*.v.  Model: Webp/Huffman.v (CanonicalHuffmanTree::{new, from_symbols,
   symbols, longest_code_len}, bitstream-io compile_read_tree / read_huffman); specification: Webp/HuffmanSpec.v
   (Kraft sum as an exact integer at the maximal length, RFC 1951 next_code assignment, decode by code table).
   Every theorem is for ALL code-length vectors (any number of symbols, any lengths) and ALL bit strings; the only
   side condition is lengths < 2^32 where `longest_code_len` (`as u32`) is mentioned (Rust: lengths are u8). *)
From Coq Require Import List NArith Bool Sorted Permutation.
From MS Require Import Base.Outcome Webp.Huffman Webp.HuffmanSpec Webp.HuffmanProofsSort Webp.HuffmanProofs.
Import ListNotations.
Open Scope N_scope.

(* accepted iff Kraft sum exactly 1, or a single used symbol of length 1 *)
Theorem C18_accept_iff_kraft : forall cl : list N,
  is_ok (new_vec cl) = true <-> (kraft_at (max_len cl) cl = 2 ^ max_len cl \/ filter nonzero cl = [1]).
Proof. exact accept_iff_kraft_prop. Qed.
Print Assumptions C18_accept_iff_kraft.

Theorem C18_accept_is_spec : forall cl : list N, is_ok (new_vec cl) = spec_accepts cl.
Proof. exact accept_iff_kraft. Qed.
Print Assumptions C18_accept_is_spec.

Theorem C18_reject_kind : forall cl : list N, is_ok (new_vec cl) = false -> new_vec cl = EParse InvalidVp8lPrefixCode.
Proof. exact reject_kind. Qed.
Print Assumptions C18_reject_kind.

(* over-subscribed vectors (every vector on which the increment wraps around to all zeros is one) fail at a trie
   insertion; under-subscribed ones pass every insertion and fail at the final empty-node check *)
Theorem C18_over_subscribed_fails_at_insertion : forall cl : list N,
  single_len1 cl = false -> 2 ^ max_len cl < kraft_at (max_len cl) cl ->
  exists e, add_all WEmpty (symbols (index_from 0 cl)) = inr e /\ (e = DuplicateLeaf \/ e = OrphanedLeaf).
Proof. exact over_subscribed_fails_at_insertion. Qed.
Print Assumptions C18_over_subscribed_fails_at_insertion.

Theorem C18_under_subscribed_fails_at_finalize : forall cl : list N,
  single_len1 cl = false -> kraft_at (max_len cl) cl < 2 ^ max_len cl ->
  exists t, add_all WEmpty (symbols (index_from 0 cl)) = inl t /\ finalize t = inr MissingLeaf.
Proof. exact under_subscribed_fails_at_finalize. Qed.
Print Assumptions C18_under_subscribed_fails_at_finalize.

(* the code table built by `symbols` is the canonical (RFC 1951 / WebP lossless) assignment -- for every vector,
   accepted or not (for over-subscribed vectors both sides are taken modulo 2^length) *)
Theorem C18_codes_are_canonical : forall cl : list N,
  Permutation (symbols (index_from 0 cl)) (canonical cl) /\
  forall s c, In (s, c) (symbols (index_from 0 cl)) <-> In (s, c) (canonical cl).
Proof. intros cl. split; [exact (codes_are_canonical_perm cl)|exact (codes_are_canonical cl)]. Qed.
Print Assumptions C18_codes_are_canonical.

(* the model of sort_unstable_by_key returns the unique sorted permutation *)
Theorem C18_sort_is_the_sorted_permutation : forall l l' : list (N * N),
  (Permutation l l' /\ StronglySorted (fun a b : N * N => is_true (KeyOrder.leb a b)) l') <-> l' = sort_by_key l.
Proof. exact sort_is_the_sorted_permutation. Qed.
Print Assumptions C18_sort_is_the_sorted_permutation.

(* decoding with an accepted code = decoding with the canonical table *)
Theorem C18_decode_is_canonical : forall (cl : list N) t, new_vec cl = Ok t ->
  forall bits s rest,
    decode (ht_tree t) bits = Some (s, rest) <-> exists c, In (s, c) (canonical cl) /\ bits = c ++ rest.
Proof. exact decode_is_canonical. Qed.
Print Assumptions C18_decode_is_canonical.

Theorem C18_decode_is_table_decode : forall (cl : list N) t, new_vec cl = Ok t ->
  forall bits, decode (ht_tree t) bits = table_decode (canonical cl) bits.
Proof. exact decode_is_table_decode. Qed.
Print Assumptions C18_decode_is_table_decode.

Theorem C18_decode_many_is_canonical : forall (cl : list N) t, new_vec cl = Ok t ->
  forall n bits, decode_many n (ht_tree t) bits = table_decode_many n (canonical cl) bits.
Proof. exact decode_many_is_canonical. Qed.
Print Assumptions C18_decode_many_is_canonical.

(* a single used symbol of length 1 is read with zero bits *)
Theorem C18_single_symbol_zero_bits : forall cl : list N, single_len1 cl = true ->
  exists s, nth_error cl (N.to_nat s) = Some 1 /\ canonical cl = [(s, [])] /\
            new_vec cl = Ok {| ht_tree := FLeaf s; ht_longest := 0 |} /\
            forall bits, read_huffman {| ht_tree := FLeaf s; ht_longest := 0 |} bits = Ok (s, bits).
Proof. exact single_symbol_zero_bits. Qed.
Print Assumptions C18_single_symbol_zero_bits.

(* longest_code_len is the maximal length (0 for the single symbol); no read consumes more, and that many bits
   always suffice *)
Theorem C18_longest_bounds_consumption : forall (cl : list N) t, Forall (fun l => l < 2 ^ 32) cl -> new_vec cl = Ok t ->
  ht_longest t = spec_longest cl /\
  (forall bits s rest, decode (ht_tree t) bits = Some (s, rest) ->
     exists c, bits = c ++ rest /\ N.of_nat (length c) <= ht_longest t) /\
  (forall bits, ht_longest t <= N.of_nat (length bits) -> decode (ht_tree t) bits <> None).
Proof. exact longest_bounds_consumption. Qed.
Print Assumptions C18_longest_bounds_consumption.

(* everything both runners print for a case, against the specification *)
Theorem C18_observation_is_spec : forall (cl : list N) n bits, Forall (fun l => l < 2 ^ 32) cl ->
  observe (new_vec cl) n bits = spec_observation cl n bits.
Proof. exact observation_is_spec. Qed.
Print Assumptions C18_observation_is_spec.

(* the simple-code shapes of lossless.rs *)
Theorem C18_simple_codes : forall a b : N,
  from_symbols [(a, [])] = Ok {| ht_tree := FLeaf a; ht_longest := 0 |} /\
  from_symbols [(a, [false]); (b, [true])] = Ok {| ht_tree := FNode (FLeaf a) (FLeaf b); ht_longest := 1 |}.
Proof. exact simple_codes. Qed.
Print Assumptions C18_simple_codes.
