(* C14 - Config options change exactly what they document; parts (a) max_metadata_size and (b) cumulative_mdat_box_size
   of mp4san.  (Part (c), webpsan's allow_unknown_chunks, belongs to the webp area.)
   Statements only; proofs in Mp4/LoopProofsConfig.v on top of the closed form of the loop in Mp4/LoopProofs.v. *)
From Coq Require Import List NArith ZArith Bool.
From Coq.Strings Require Import Byte.
From MS Require Import Base.Bytes Base.Outcome Base.Prog Mp4.Header Mp4.Box Mp4.San Mp4.Spec Mp4.LoopProofs Mp4.LoopProofsSpec
  Mp4.LoopProofsConfig.
Import ListNotations.
Open Scope N_scope.

(* (a) for limits m1 <= m2 the two runs give the same result -- or the smaller limit gives InvalidInput and the input
   has, at some position p, a moov box header whose payload size n (declared size minus header length, or up to the
   end of the input for size 0) lies in (m1, m2].  Any reader (strict/lenient, any seek bound), any fuel. *)
Theorem C14_limit_monotone :
  forall (inp : input) (lenient : bool) (ms : N) (cum : option N) (m1 m2 : N) (fuel : nat),
  m1 <= m2 ->
  let san m := mp4_sanitize {| max_metadata_size := m; cumulative_mdat_box_size := cum |} lenient ms inp fuel in
  san m1 = san m2 \/
  (san m1 = EParse InvalidInput /\
   exists p n, p < ilen inp /\
     (exists sh, shdr_of (window inp p) = Some sh /\ sh_type sh = MOOV /\
        let size := match sh_size sh with Some s => s | None => ilen inp - p end in
        sh_len sh <= size /\ n = size - sh_len sh) /\
     m1 < n <= m2).
Proof. intros inp lenient ms cum m1 m2 fuel H. exact (limit_monotone inp lenient ms cum m1 m2 H fuel). Qed.
Print Assumptions C14_limit_monotone.

(* (b) cumulative_mdat_box_size:
   1. if no until-EOF mdat header stands anywhere in the input, the option has no effect at all;
   2. it acts only through the tiling: two settings under which the input has the same tiling (Spec.tile reads an
      until-EOF mdat under Some t as a box of declared size t, see 4.) give the same result;
   3. if under Some t the input is not tiled by complete boxes (t < header length, or the mdat would end beyond the
      input, or a later box is broken) the input is rejected;
   4. the size the tiling gives to a box: the declared size; for size 0 the rest of the input -- except that an mdat
      under Some t gets t. *)
Theorem C14_cumulative_is_declared_size :
  forall (inp : input) (lenient : bool) (mx : N) (c1 c2 : option N),
  ilen inp <= U64MAX ->
  (forall t, c1 = Some t -> t <= U32MAX) -> (forall t, c2 = Some t -> t <= U32MAX) ->
  let san c fuel := mp4_sanitize {| max_metadata_size := mx; cumulative_mdat_box_size := c |} lenient U64MAX' inp fuel in
  ((forall p, p < ilen inp ->
      ~ exists sh, shdr_of (window inp p) = Some sh /\ sh_type sh = MDAT /\ sh_size sh = None) ->
   forall fuel, san c1 fuel = san c2 fuel) /\
  (forall bs fuel fuel', tiling c1 inp = Some bs -> tiling c2 inp = Some bs ->
     san c1 fuel <> OutOfFuel -> san c2 fuel' <> OutOfFuel -> san c1 fuel = san c2 fuel') /\
  (forall fuel, tiling c1 inp = None -> is_ok (san c1 fuel) = false).
Proof. exact cumulative_is_declared_size. Qed.
Print Assumptions C14_cumulative_is_declared_size.

Theorem C14_tiling_size_under_cumulative :
  forall (t : N) (inp : input) (off : N) (h : shdr),
  resolve (Some t) inp off h =
  match sh_size h with
  | None => if beq (sh_type h) MDAT then t else resolve None inp off h
  | Some _ => resolve None inp off h
  end.
Proof. exact resolve_cum. Qed.
Print Assumptions C14_tiling_size_under_cumulative.

(* (b) across two inputs: "san{cum := Some t} x = san{cum := None} (x with the until-EOF mdat header decoded as Size t)".
   Any x' whose plain tiling is the tiling of x under Some t and whose ftyp / moov payloads are those of x gives under
   None exactly the result x gives under Some t.  (Writing t >= 2 into the header's 32-bit size field is one such x';
   that byte-level instance is exercised by the pairwise oracle, not proved.) *)
Theorem C14_cumulative_declared_size_inputs :
  forall (inp inp' : input) (lenient : bool) (mx t : N) (bs : list tbox) (fuel fuel' : nat),
  ilen inp <= U64MAX -> ilen inp' <= U64MAX -> t <= U32MAX ->
  tiling (Some t) inp = Some bs -> tiling None inp' = Some bs ->
  (forall b, In b bs -> is FTYP b || is MOOV b = true -> tb_payload inp b = tb_payload inp' b) ->
  let r := mp4_sanitize {| max_metadata_size := mx; cumulative_mdat_box_size := Some t |} lenient U64MAX' inp fuel in
  let r' := mp4_sanitize {| max_metadata_size := mx; cumulative_mdat_box_size := None |} lenient U64MAX' inp' fuel' in
  r <> OutOfFuel -> r' <> OutOfFuel -> r = r'.
Proof. exact cumulative_declared_size_inputs. Qed.
Print Assumptions C14_cumulative_declared_size_inputs.
