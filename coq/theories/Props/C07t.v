(* C07 / C08: the tables and literals of the lossless model are those of the current source.  Statements only; proofs in
   Webp/TableProofs.v; Gen/WebpTables.v is rewritten from webpsan/src/parse/*.rs by tools/gen_consts.py on every run. *)
From Coq Require Import List NArith ZArith Bool.
From MS Require Import Base.Bytes Base.Outcome Webp.Huffman Webp.Vp8l Gen.WebpTables Webp.TableProofs.
Import ListNotations.
Open Scope N_scope.

Theorem C07_color_index_block_is_src : forall len,
  color_index_block len = lookup_range COLOR_INDEX_BLOCKS_SRC COLOR_INDEX_BLOCK_DEFAULT_SRC len.
Proof. exact color_index_block_is_src. Qed.
Print Assumptions C07_color_index_block_is_src.

Theorem C07_alphabet_size_is_src : forall k cache_len,
  alphabet_size k cache_len =
  match k with
  | KGreen => ALPHABET_GREEN_BASE_SRC + ALPHABET_GREEN_LEN_SRC + cache_len
  | KArb => ALPHABET_ARB_SRC
  | KDist => ALPHABET_DIST_SRC
  end.
Proof. exact alphabet_size_is_src. Qed.
Print Assumptions C07_alphabet_size_is_src.

Theorem C07_tables_taken_from_source :
  DISTANCE_MAP_Z = DISTANCE_MAP_SRC /\ DISTANCE_MAP_LEN = DISTANCE_MAP_LEN_SRC /\ CODE_ORDER = CODE_ORDER_SRC /\
  N.of_nat (length DISTANCE_MAP_SRC) = DISTANCE_MAP_LEN_SRC /\ length CODE_ORDER_SRC = 19%nat.
Proof. exact tables_taken_from_source. Qed.
Print Assumptions C07_tables_taken_from_source.

Theorem C07_literals_match_source :
  TRANSFORM_CODES_SRC = [0; 1; 2; 3] /\ COLOR_CACHE_MAX_ORDER_SRC = 11 /\
  REPEAT_CODES_SRC = [(16, (3, 2)); (17, (3, 3)); (18, (11, 7))] /\
  BACKREF_SYMBOLS_SRC = (256, 279) /\ ALPHABET_GREEN_BASE_SRC + ALPHABET_GREEN_LEN_SRC = 280 /\
  VP8L_SIGNATURE_SRC = 47 /\ LZ77_MAX_SYMBOL_SRC = 39 /\ LZ77_MAX_LEN_SRC = 18.
Proof. exact literals_match_source. Qed.
Print Assumptions C07_literals_match_source.
