(* C11 and finding D11 in its exact shape.  Over the same bytes, two seek-style views that differ in how far they can seek (io::Cursor:
   2^64-1; a file: 2^63-1 or the file system's limit) return the SAME result - or the more limited one returns Io(InvalidInput) /
   Io(InvalidData), the answer of a skip whose target lies beyond its limit, and the other one rejects the input as well: the verdict
   accept / reject never depends on the limit.  First on the ideal cursor (every input size), then for every pair of adapter stacks
   over in-memory data (composition with C11_mp4_view_is_model).  Proofs in Base/MaxSeekProofs.v, Base/MaxSeekSan.v. *)
From Coq Require Import List NArith Bool.
From Coq.Strings Require Import Byte.
From MS Require Import Base.Bytes Base.Outcome Base.Prog Base.ProgSpec Base.MaxSeekProofs Base.MaxSeekSan
  Mp4.Header Mp4.Box Mp4.San Mp4.Spec Webp.Container.
Open Scope N_scope.

(* every programme that returns the I/O errors it meets (C13's [propagating]), from any position *)
Theorem C11_max_seek_only_adds_io : forall (A : Type) (T : perr -> Prop) (p : prog A), propagating T p ->
  forall (inp : input) (ms1 ms2 pos : N), ms1 <= ms2 ->
  fst (run (cursor inp true ms1) p pos) = fst (run (cursor inp true ms2) p pos) \/
  exists e, (e = EInvalidInput \/ e = EInvalidData) /\ fst (run (cursor inp true ms1) p pos) = EIo e.
Proof. exact @cursor_max_seek_mono. Qed.
Print Assumptions C11_max_seek_only_adds_io.

Theorem C11_mp4_D11_is_all : forall (cfg : config) (inp : input) (fuel : nat) (ms1 ms2 : N),
  ilen inp <= ms1 -> ms1 <= ms2 -> ms2 <= U64MAX ->
  (forall t, cumulative_mdat_box_size cfg = Some t -> t <= U32MAX) ->
  mp4_sanitize cfg true ms1 inp fuel = mp4_sanitize cfg true ms2 inp fuel \/
  exists e, (e = EInvalidInput \/ e = EInvalidData) /\
            mp4_sanitize cfg true ms1 inp fuel = EIo e /\ is_ok (mp4_sanitize cfg true ms2 inp fuel) = false.
Proof. exact mp4_max_seek_shape. Qed.
Print Assumptions C11_mp4_D11_is_all.

Theorem C11_webp_D11_is_all : forall (lossless : N -> N -> bytes -> res unit) (allow : bool) (inp : input) (fuel : nat) (ms1 ms2 : N),
  ilen inp <= ms1 -> ms1 <= ms2 -> (N.to_nat (ilen inp / 8) < fuel)%nat ->
  webp_sanitize lossless allow true ms1 inp fuel = webp_sanitize lossless allow true ms2 inp fuel \/
  exists e, (e = EInvalidInput \/ e = EInvalidData) /\
            webp_sanitize lossless allow true ms1 inp fuel = EIo e /\ is_ok (webp_sanitize lossless allow true ms2 inp fuel) = false.
Proof. exact webp_max_seek_shape. Qed.
Print Assumptions C11_webp_D11_is_all.

(* ... and for every pair of adapter stacks over the same in-memory data, whichever way each of them chunks its reads *)
From MS Require Import Base.Cursor Base.Adapters Base.AdaptersSpec Base.StackReader Base.StackSpec Base.MaxSeekViews.
Theorem C11_mp4_views_differ_only_by_D11 :
  forall (cfg : config) (fuel : nat) (ms1 ms2 : N) (st1 st2 : stk) (e1 e2 : bool) (data : bytes),
  stk_ok st1 -> stk_ok st2 -> blen data <= I64MAX -> ms_ok (blen data) ms1 -> ms_ok (blen data) ms2 -> ms1 <= ms2 ->
  (forall t, cumulative_mdat_box_size cfg = Some t -> t <= U32MAX) ->
  let r1 := fst (Prog.run (mp4_view e1 ms1 st1) (sanitize_prog cfg fuel) (mp4_view_init e1 ms1 st1 data)) in
  let r2 := fst (Prog.run (mp4_view e2 ms2 st2) (sanitize_prog cfg fuel) (mp4_view_init e2 ms2 st2 data)) in
  r1 = r2 \/ exists e, (e = EInvalidInput \/ e = EInvalidData) /\ r1 = EIo e /\ is_ok r2 = false.
Proof. exact mp4_views_differ_only_by_D11. Qed.
Print Assumptions C11_mp4_views_differ_only_by_D11.
