(* C04 - all metadata is carried over unchanged except chunk-offset values: the statements at the level of the ftyp and
   moov PAYLOADS as the model keeps and rewrites them.  Proofs in Mp4/BoxProofs.v.  That the returned metadata is
   header ++ ftyp payload ++ header ++ put_nodes kids' is the top-level assembly (Mp4/San.v finish), proved elsewhere. *)
From Coq Require Import List NArith ZArith Bool.
From Coq.Strings Require Import Byte.
From MS Require Import Base.Bytes Base.Outcome Base.Prog Mp4.Header Mp4.Box Mp4.San Mp4.Spec Mp4.ShiftSpec Mp4.BoxProofs
  Mp4.LoopProofsRewrite.
Import ListNotations.
Open Scope N_scope.

(* the tree kept for an accepted moov serialises to its payload (no rewrite: identical), and after a successful
   rewrite by d the payload has the same length and is byte-identical outside the entry tables the specification
   finds in the input payload *)
Theorem C04_moov_identical_outside_tables : forall (p : bytes) (kids : list node) (rs : list region) (d : Z)
                                                   (kids' : list node) (u : list unit),
  moov_check p = Ok kids -> co_regions p = Some rs -> (- 2 ^ 31 <= d < 2 ^ 31)%Z ->
  each_trak kids (shift_table (shift_entry 32 d) (shift_entry 64 d)) = Ok (kids', u) ->
  put_nodes kids = p /\ blen (put_nodes kids') = blen p /\ masked_eq rs p (put_nodes kids') = true.
Proof. exact moov_identical_outside_tables. Qed.
Print Assumptions C04_moov_identical_outside_tables.

(* ftyp: the model keeps the payload bytes; what FtypBox::parse extracts (major brand, minor version, the brand array
   with a possible 1-3 byte tail) re-encodes to exactly those bytes *)
Theorem C04_ftyp_identical : forall (p major : bytes) (brands : list bytes), parse_ftyp p = Ok (major, brands) ->
  (8 <= length p)%nat /\
  p = major ++ n2be 4 (be2n (firstn 4 (skipn 4 p))) ++ skipn 8 p /\
  (exists tail, skipn 8 p = concat brands ++ tail /\ (length tail < 4)%nat) /\
  length major = 4%nat /\ Forall (fun b => length b = 4%nat) brands.
Proof. exact ftyp_identical. Qed.
Print Assumptions C04_ftyp_identical.

(* ================================================================== TOP LEVEL (whole inputs; proof in Mp4/LoopProofsRewrite.v)
   the returned metadata, read as boxes by the specification: its ftyp payload is the input's ftyp payload byte for byte;
   its moov payload has the length of the input's last moov payload and equals it outside the chunk-offset entry
   tables that the specification finds in the input's payload *)
Theorem C04_toplevel :
  forall (cfg : config) (lenient : bool) (inp : input) (fuel : nat) (o : out) (md : bytes) (pad : N),
  ilen inp <= U64MAX -> (forall t, cumulative_mdat_box_size cfg = Some t -> t <= U32MAX) ->
  mp4_sanitize cfg lenient U64MAX' inp fuel = Ok o -> o_metadata o = Some (md, pad) ->
  exists bs f m mp' psz rs,
    tiling (cumulative_mdat_box_size cfg) inp = Some bs /\ the_ftyp bs = Some f /\ last_moov bs = Some m /\
    metadata_shape (md_input md pad) = Some (tb_payload inp f, mp', psz) /\
    co_regions (tb_payload inp m) = Some rs /\
    blen mp' = blen (tb_payload inp m) /\
    masked_eq rs (tb_payload inp m) mp' = true.
Proof. exact C04_toplevel_lemma. Qed.
Print Assumptions C04_toplevel.

