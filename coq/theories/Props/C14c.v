(* C14 part (c) - webpsan's allow_unknown_chunks only turns UnsupportedChunk rejections of unknown chunks into
   acceptance and never admits a known chunk out of place.
   Statements only; proofs in Webp/ContainerProofsAllow.v (simulation between the two settings, for every reader)
   and Webp/ContainerProofsSound.v (C06 soundness, which holds for allow_unknown_chunks = true as well). *)
From Coq Require Import List NArith Bool.
From Coq.Strings Require Import Byte.
From MS Require Import Base.Bytes Base.Outcome Base.Prog Webp.Container Webp.Grammar Webp.ContainerProofsSound
  Webp.ContainerProofsAllow Webp.ContainerProofsUnknown.
Open Scope N_scope.

(* results under the two settings, same input, same reader (strict or seek-style, any seek bound), same fuel:
   accepted without the option => accepted with it; rejected without it for any reason other than UnsupportedChunk =>
   the identical result with it; accepted with it => accepted or UnsupportedChunk without it *)
Theorem C14_unknown_chunks_only :
  forall (lossless : N -> N -> bytes -> res unit) (lenient : bool) (ms : N) (inp : input) (fuel : nat),
  let off := webp_sanitize lossless false lenient ms inp fuel in
  let on := webp_sanitize lossless true lenient ms inp fuel in
  (off = Ok tt -> on = Ok tt)
  /\ (is_unsupported_chunk off = false -> on = off)
  /\ (on = Ok tt -> off = Ok tt \/ exists t, off = EParse (UnsupportedChunk t)).
Proof. exact webp_allow_unknown_only. Qed.
Print Assumptions C14_unknown_chunks_only.

(* the same for EVERY reader (any Read+Skip behaviour, faults included): the two runs are identical - result and
   final reader state - or the run without the option stops with UnsupportedChunk *)
Theorem C14_unknown_chunks_only_any_reader :
  forall (R : reader) (lossless : N -> N -> bytes -> res unit) (fuel : nat) (s : rst R),
  run R (webp_prog lossless false fuel) s = run R (webp_prog lossless true fuel) s
  \/ exists t s', run R (webp_prog lossless false fuel) s = (EParse (UnsupportedChunk t), s').
Proof. exact webp_allow_simulation_any_reader. Qed.
Print Assumptions C14_unknown_chunks_only_any_reader.

(* with the option set, an accepted input still satisfies the grammar of C06, whose tail clause [tail_ok] admits
   only chunks outside the known set after the image (and after the image inside a frame): no known chunk is
   admitted out of place *)
Theorem C14_known_chunk_never_out_of_place :
  forall (lossless : N -> N -> bytes -> res unit) (lenient : bool) (ms : N) (inp : input) (fuel : nat),
  webp_sanitize lossless true lenient ms inp fuel = Ok tt ->
  webp_spec (fun w h b => is_ok (lossless w h b)) true inp = true.
Proof. intros lossless lenient ms inp fuel. exact (webp_sanitize_sound lossless true lenient ms inp fuel). Qed.
Print Assumptions C14_known_chunk_never_out_of_place.

(* the rejections the option turns into acceptance concern unknown chunks only: an UnsupportedChunk error always names
   a chunk outside the known set {ALPH, ANIM, ANMF, EXIF, ICCP, VP8, VP8L, VP8X, XMP} - for every reader (faults
   included), reader state, configuration and fuel, and every lossless validator that does not itself report it *)
Theorem C14_unsupported_chunk_names_unknown :
  forall (R : reader) (lossless : N -> N -> bytes -> res unit) (allow : bool) (fuel : nat) (s : rst R) (t : bytes),
  (forall w h b t', lossless w h b <> EParse (UnsupportedChunk t')) ->
  fst (run R (webp_prog lossless allow fuel) s) = EParse (UnsupportedChunk t) -> known t = false.
Proof. exact unsupported_chunk_is_unknown. Qed.
Print Assumptions C14_unsupported_chunk_names_unknown.
