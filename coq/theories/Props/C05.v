(* C05 - MP4: a file is accepted iff it meets the documented structural rules.
   Statements only.  Top level: Mp4/LoopProofs.v (closed form of the loop), Mp4/LoopProofsSpec.v, Mp4/LoopProofsAccept.v;
   inside moov: Mp4/BoxProofs.v (moov_check_iff_spec, moov_check_put, shift_ok_iff), instantiated here.
   [lenient] ranges over both Skip behaviours of the reader (strict, and seek-style followed by the end-of-loop check). *)
From Coq Require Import List NArith ZArith Bool.
From Coq.Strings Require Import Byte.
From MS Require Import Base.Bytes Base.Outcome Base.Prog Mp4.Header Mp4.Box Mp4.San Mp4.Spec
  Mp4.LoopProofs Mp4.LoopProofsSpec Mp4.LoopProofsAccept Mp4.BoxProofs.
Import ListNotations.
Open Scope N_scope.

(* accepted  <->  the specification's rules hold (complete tiling, layout, ftyp, every moov, mdat contiguity)
   and the relocation of the chunk offsets does not overflow (C01's refusal condition) *)
Theorem C05_accept_iff_rules :
  forall (cfg : config) (lenient : bool) (inp : input) (fuel : nat),
  max_metadata_size cfg < 4294967296 ->
  ilen inp <= U64MAX ->
  (forall t, cumulative_mdat_box_size cfg = Some t -> t <= U32MAX) ->
  mp4_sanitize cfg lenient U64MAX' inp fuel <> OutOfFuel ->
  is_ok (mp4_sanitize cfg lenient U64MAX' inp fuel) =
  accept_spec {| c_max := max_metadata_size cfg; c_cum := cumulative_mdat_box_size cfg |} inp
  && negb (match tiling (cumulative_mdat_box_size cfg) inp with Some bs => overflow_case inp bs | None => false end).
Proof.
  intros cfg lenient inp fuel Hm Hl Hc.
  exact (accept_iff_rules cfg inp lenient Hm Hl Hc moov_check_iff_spec moov_check_put shift_ok_iff fuel).
Qed.
Print Assumptions C05_accept_iff_rules.

(* no metadata is returned exactly when the plan is "no rewrite", i.e. the last moov starts before the first mdat *)
Theorem C05_none_iff_moov_first :
  forall (cfg : config) (lenient : bool) (inp : input) (fuel : nat) (o : out),
  max_metadata_size cfg < 4294967296 ->
  ilen inp <= U64MAX ->
  (forall t, cumulative_mdat_box_size cfg = Some t -> t <= U32MAX) ->
  mp4_sanitize cfg lenient U64MAX' inp fuel = Ok o ->
  exists bs, tiling (cumulative_mdat_box_size cfg) inp = Some bs /\
    (o_metadata o = None <-> plan_of inp bs = Some NoRewrite) /\
    (plan_of inp bs = Some NoRewrite <->
     exists f m d, the_ftyp bs = Some f /\ last_moov bs = Some m /\ first_mdat bs = Some d /\ tb_off m < tb_off d).
Proof.
  intros cfg lenient inp fuel o Hm Hl Hc H.
  destruct (none_iff_moov_first cfg inp lenient Hm Hl Hc moov_check_iff_spec moov_check_put shift_ok_iff fuel o H)
    as (bs & Ht & Hiff).
  exists bs. split; [exact Ht|]. split; [exact Hiff | apply plan_norewrite_iff].
Qed.
Print Assumptions C05_none_iff_moov_first.

(* the two Skip behaviours agree on acceptance (after the end-of-loop check of the repair) *)
Theorem C05_strict_lenient_agree :
  forall (cfg : config) (inp : input) (fuel : nat),
  max_metadata_size cfg < 4294967296 ->
  ilen inp <= U64MAX ->
  (forall t, cumulative_mdat_box_size cfg = Some t -> t <= U32MAX) ->
  mp4_sanitize cfg false U64MAX' inp fuel <> OutOfFuel ->
  mp4_sanitize cfg true U64MAX' inp fuel <> OutOfFuel ->
  is_ok (mp4_sanitize cfg false U64MAX' inp fuel) = is_ok (mp4_sanitize cfg true U64MAX' inp fuel).
Proof.
  intros cfg inp fuel Hm Hl Hc H1 H2.
  rewrite (accept_iff_rules cfg inp false Hm Hl Hc moov_check_iff_spec moov_check_put shift_ok_iff fuel H1).
  rewrite (accept_iff_rules cfg inp true Hm Hl Hc moov_check_iff_spec moov_check_put shift_ok_iff fuel H2).
  reflexivity.
Qed.
Print Assumptions C05_strict_lenient_agree.
