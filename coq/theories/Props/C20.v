(* C20 - checked signed addition is exact.  Statement only; proof in Base/AddSignedProofs.v.
   The definition [checked_add_signed] is REGENERATED from common/src/util.rs on every run. *)
From Coq Require Import ZArith Bool.
From MS Require Import Gen.Kernels Base.AddSignedProofs.
Open Scope Z_scope.

Theorem C20_exact : forall w x y : Z,
  1 <= w -> 0 <= x < 2^w -> - 2^(w-1) <= y < 2^(w-1) ->
  checked_add_signed w x y =
    if (0 <=? x + y) && (x + y <? 2^w) then Some (x + y) else None.
Proof. exact checked_add_signed_exact. Qed.
Print Assumptions C20_exact.
