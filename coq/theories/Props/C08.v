(* C08 - WebP: valid images (reference-encoder output and spec corner cases) are accepted.
   Statements only; proofs in Webp/Vp8lProofs*.v.  Model, specification and [dims] as in Props/C07.v.
   strict_exception w h body = the reference reading decodes the header phase, the strict reading does not. *)
From Coq Require Import List NArith ZArith Bool.
From Coq.Strings Require Import Byte.
From MS Require Import Base.Bytes Base.Outcome Webp.Huffman Webp.HuffmanSpec Webp.BitBufSpec Webp.Vp8l Webp.Vp8lSpec
  Webp.Vp8lProofsTop.
Import ListNotations.
Open Scope N_scope.

(* C08: whatever the reference reading decodes is accepted, apart from the documented strictness cases *)
Theorem C08_model_complete : forall w h body, dims w h ->
  vp8l_spec w h body = true -> strict_exception w h body = false -> lossless_read w h body = Ok tt.
Proof. exact model_complete. Qed.
Print Assumptions C08_model_complete.

(* the exceptions are exactly the two documented ones: in a stream the reference reading decodes, the strict reading can
   only fail on "predictor green outside 0..13" or "single used symbol whose length is not 1" *)
Theorem C08_strict_exception_is_documented : forall w h body, strict_exception w h body = true ->
  vp8l_spec_why false w h body = None /\
  (vp8l_spec_why true w h body = Some RStrictPredictor \/ vp8l_spec_why true w h body = Some RStrictSingleSymbol).
Proof. exact strict_exception_is_documented. Qed.
Print Assumptions C08_strict_exception_is_documented.

(* acceptance is exactly the strict reading (so completeness and soundness are one equivalence) *)
Theorem C08_model_is_strict_spec : forall w h body, dims w h ->
  is_ok (lossless_read w h body) = vp8l_spec_strict w h body.
Proof. exact model_is_strict_spec. Qed.
Print Assumptions C08_model_is_strict_spec.
