(* C01: which kernel rewrites which table, as the SOURCE says now.  Gen/Mp4ShiftSites.v is rewritten on every run from the two rewrite loops
   of mp4san/src/lib.rs and the entry types of StcoBox / Co64Box (a loop that converts the entry or the displacement on the way to
   checked_add_signed - seed C20_8: `as u32` after a 64-bit addition - is not a shape the translator accepts).  Proofs in
   Mp4/ShiftSitesProofs.v. *)
From Coq Require Import List NArith ZArith Bool.
From Coq.Strings Require Import Byte.
From MS Require Import Base.Bytes Base.Outcome Mp4.Header Mp4.Box Gen.Mp4ShiftSites Mp4.ShiftSitesProofs.
Import ListNotations.
Open Scope N_scope.

Theorem C01_table_entry_sizes_are_source : forall (A : Type) (kids : list node) (g : node -> res (node * A)),
  stbl_co kids g =
  (let have_stco := existsb (node_is t_stco) kids in
   let have_co64 := existsb (node_is t_co64) kids in
   if have_stco && have_co64 then EParse InvalidBoxLayout
   else if have_stco then with_one t_stco kids (fun n => n' <- force_table (entry_bytes_src t_stco) n ;; g n')
   else with_one t_co64 kids (fun n => n' <- force_table (entry_bytes_src t_co64) n ;; g n')).
Proof. exact @stbl_co_widths_are_src. Qed.
Print Assumptions C01_table_entry_sizes_are_source.

Theorem C01_shift_kernel_widths_are_source : forall (f32 f64 : N -> res N) (h : header) (w c : N) (e : bytes),
  shift_table f32 f64 (Tab h w c e) =
  (e' <- map_entries (S (length e)) (N.to_nat w) (if w =? entry_bytes_src t_stco then f32 else f64) e ;; Ok (Tab h w c e', tt)).
Proof. exact shift_table_widths_are_src. Qed.
Print Assumptions C01_shift_kernel_widths_are_source.

Theorem C01_shift_sites : SHIFT_SITES_SRC = [(t_stco, 32); (t_co64, 64)] /\ DISPLACEMENT_BITS_SRC = 32.
Proof. exact shift_sites_as_modelled. Qed.
Print Assumptions C01_shift_sites.
