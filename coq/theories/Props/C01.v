(* C01 - relocated chunk offsets still address the same media bytes: the statements at the level of ONE moov payload
   (the box-tree model Mp4/Box.v and the in-place rewrite the sanitizer applies to it).  Proofs in Mp4/BoxProofs.v.
   The top-level assembly (which displacement the sanitizer chooses, padding => zero shift, displacements outside
   i32 refused) is stated over whole inputs elsewhere; it uses exactly these theorems. *)
From Coq Require Import List NArith ZArith Bool.
From MS Require Import Base.Bytes Base.Outcome Mp4.Header Mp4.Box Mp4.San Mp4.Spec Mp4.ShiftSpec Mp4.BoxProofs.
Open Scope N_scope.

(* when the rewrite by d succeeds, the specification-side tables of the new payload are the old ones with every
   entry replaced by e + d, exactly (integers), tables and entries in the same order *)
Theorem C01_offsets_shifted : forall (p : bytes) (kids : list node) (ts : list (N * list N)) (d : Z)
                                     (kids' : list node) (u : list unit),
  moov_check p = Ok kids -> co_tables p = Some ts -> (- 2 ^ 31 <= d < 2 ^ 31)%Z ->
  each_trak kids (shift_table (shift_entry 32 d) (shift_entry 64 d)) = Ok (kids', u) ->
  exists ts', co_tables (put_nodes kids') = Some ts' /\ shift_all d ts = Some ts' /\ shifted_by d ts ts'.
Proof. exact offsets_shifted. Qed.
Print Assumptions C01_offsets_shifted.

(* number, order, entry width, position and entry count of the tables are unchanged, and so is the payload length *)
Theorem C01_shape_preserved : forall (p : bytes) (kids : list node) (d : Z) (kids' : list node) (u : list unit),
  moov_check p = Ok kids -> (- 2 ^ 31 <= d < 2 ^ 31)%Z ->
  each_trak kids (shift_table (shift_entry 32 d) (shift_entry 64 d)) = Ok (kids', u) ->
  co_regions (put_nodes kids') = co_regions p /\ co_regions p <> None /\ blen (put_nodes kids') = blen p.
Proof. exact shape_preserved_regions. Qed.
Print Assumptions C01_shape_preserved.

(* if some entry of some table would leave its field (e + d < 0 or e + d >= 2^(8 width)) the rewrite is refused
   with InvalidInput ... *)
Theorem C01_overflow_rejected : forall (p : bytes) (kids : list node) (ts : list (N * list N)) (d : Z),
  moov_check p = Ok kids -> co_tables p = Some ts -> (- 2 ^ 31 <= d < 2 ^ 31)%Z ->
  (exists t e, In t ts /\ In e (snd t) /\ shift (fst t) d e = None) ->
  each_trak kids (shift_table (shift_entry 32 d) (shift_entry 64 d)) = EParse InvalidInput.
Proof. exact overflow_rejected. Qed.
Print Assumptions C01_overflow_rejected.

(* ... and that is the only reason for a refusal *)
Theorem C01_rejected_only_on_overflow : forall (p : bytes) (kids : list node) (ts : list (N * list N)) (d : Z),
  moov_check p = Ok kids -> co_tables p = Some ts -> (- 2 ^ 31 <= d < 2 ^ 31)%Z ->
  is_ok (each_trak kids (shift_table (shift_entry 32 d) (shift_entry 64 d))) = false ->
  exists t e, In t ts /\ In e (snd t) /\ shift (fst t) d e = None.
Proof. exact rejected_only_on_overflow. Qed.
Print Assumptions C01_rejected_only_on_overflow.

(* the model's moov arm accepts exactly the payloads in which the specification finds the tables (below 4 GiB) *)
Theorem C01_tables_found : forall p : bytes, blen p < 4294967296 ->
  is_ok (moov_check p) = match co_regions p with Some _ => true | None => false end.
Proof. exact moov_check_iff_spec. Qed.
Print Assumptions C01_tables_found.
