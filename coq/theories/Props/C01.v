(* C01 - relocated chunk offsets still address the same media bytes: the statements at the level of ONE moov payload
   (the box-tree model Mp4/Box.v and the in-place rewrite the sanitizer applies to it).  Proofs in Mp4/BoxProofs.v.
   The top-level assembly (which displacement the sanitizer chooses, padding => zero shift, displacements outside
   i32 refused) is stated over whole inputs elsewhere; it uses exactly these theorems. *)
From Coq Require Import List NArith ZArith Bool.
From Coq.Strings Require Import Byte.
From MS Require Import Base.Bytes Base.Outcome Base.Prog Mp4.Header Mp4.Box Mp4.San Mp4.Spec Mp4.ShiftSpec Mp4.BoxProofs
  Mp4.LoopProofsRewrite.
Import ListNotations.
Open Scope N_scope.

(* when the rewrite by d succeeds, the specification-side tables of the new payload are the old ones with every
   entry replaced by e + d, exactly (integers), tables and entries in the same order *)
Theorem C01_offsets_shifted : forall (p : bytes) (kids : list node) (ts : list (N * list N)) (d : Z)
                                     (kids' : list node) (u : list unit),
  moov_check p = Ok kids -> co_tables p = Some ts -> (- 2 ^ 31 <= d < 2 ^ 31)%Z ->
  each_trak kids (shift_table (shift_entry 32 d) (shift_entry 64 d)) = Ok (kids', u) ->
  exists ts', co_tables (put_nodes kids') = Some ts' /\ shift_all d ts = Some ts' /\ shifted_by d ts ts'.
Proof. exact offsets_shifted. Qed.
Print Assumptions C01_offsets_shifted.

(* number, order, entry width, position and entry count of the tables are unchanged, and so is the payload length *)
Theorem C01_shape_preserved : forall (p : bytes) (kids : list node) (d : Z) (kids' : list node) (u : list unit),
  moov_check p = Ok kids -> (- 2 ^ 31 <= d < 2 ^ 31)%Z ->
  each_trak kids (shift_table (shift_entry 32 d) (shift_entry 64 d)) = Ok (kids', u) ->
  co_regions (put_nodes kids') = co_regions p /\ co_regions p <> None /\ blen (put_nodes kids') = blen p.
Proof. exact shape_preserved_regions. Qed.
Print Assumptions C01_shape_preserved.

(* if some entry of some table would leave its field (e + d < 0 or e + d >= 2^(8 width)) the rewrite is refused
   with InvalidInput ... *)
Theorem C01_overflow_rejected : forall (p : bytes) (kids : list node) (ts : list (N * list N)) (d : Z),
  moov_check p = Ok kids -> co_tables p = Some ts -> (- 2 ^ 31 <= d < 2 ^ 31)%Z ->
  (exists t e, In t ts /\ In e (snd t) /\ shift (fst t) d e = None) ->
  each_trak kids (shift_table (shift_entry 32 d) (shift_entry 64 d)) = EParse InvalidInput.
Proof. exact overflow_rejected. Qed.
Print Assumptions C01_overflow_rejected.

(* ... and that is the only reason for a refusal *)
Theorem C01_rejected_only_on_overflow : forall (p : bytes) (kids : list node) (ts : list (N * list N)) (d : Z),
  moov_check p = Ok kids -> co_tables p = Some ts -> (- 2 ^ 31 <= d < 2 ^ 31)%Z ->
  is_ok (each_trak kids (shift_table (shift_entry 32 d) (shift_entry 64 d))) = false ->
  exists t e, In t ts /\ In e (snd t) /\ shift (fst t) d e = None.
Proof. exact rejected_only_on_overflow. Qed.
Print Assumptions C01_rejected_only_on_overflow.

(* the model's moov arm accepts exactly the payloads in which the specification finds the tables (below 4 GiB) *)
Theorem C01_tables_found : forall p : bytes, blen p < 4294967296 ->
  is_ok (moov_check p) = match co_regions p with Some _ => true | None => false end.
Proof. exact moov_check_iff_spec. Qed.
Print Assumptions C01_tables_found.

(* ================================================================== TOP LEVEL (whole inputs; proofs in Mp4/LoopProofsRewrite.v)
   For every configuration, both Skip behaviours of the reader, every input up to 2^64-1 bytes and every fuel:
   if metadata is returned then, read as boxes by the specification (metadata_shape), its moov payload mp' has the
   chunk-offset tables of the input's last moov payload at the same places, every entry e replaced by e + delta exactly,
   delta = |metadata| - media offset, every new entry within its field -- so that in metadata || media each entry
   addresses the media byte it addressed in the input.  When a padding box is emitted (psz <> 0), delta = 0 follows.
   Refusal: a plan that is Refuse, or a Shift under which some entry leaves its field, is never answered with Ok. *)
Theorem C01_toplevel :
  forall (cfg : config) (lenient : bool) (inp : input) (fuel : nat) (o : out) (md : bytes) (pad : N),
  ilen inp <= U64MAX -> (forall t, cumulative_mdat_box_size cfg = Some t -> t <= U32MAX) ->
  mp4_sanitize cfg lenient U64MAX' inp fuel = Ok o -> o_metadata o = Some (md, pad) ->
  exists bs m fp mp' psz ts,
    tiling (cumulative_mdat_box_size cfg) inp = Some bs /\ last_moov bs = Some m /\
    metadata_shape (md_input md pad) = Some (fp, mp', psz) /\
    co_tables (tb_payload inp m) = Some ts /\
    let delta := (Z.of_N (blen md + pad) - Z.of_N (s_off (o_data o)))%Z in
    co_regions mp' = co_regions (tb_payload inp m) /\
    co_tables mp' = Some (map (fun t : N * list N => (fst t, map (fun e => Z.to_N (Z.of_N e + delta)) (snd t))) ts) /\
    (forall t e, In t ts -> In e (snd t) -> (0 <= Z.of_N e + delta < 2 ^ (8 * Z.of_N (fst t)))%Z) /\
    (psz <> 0 -> delta = 0%Z).
Proof. exact C01_toplevel_lemma. Qed.
Print Assumptions C01_toplevel.

Theorem C01_pad_means_zero_shift :
  forall (cfg : config) (lenient : bool) (inp : input) (fuel : nat) (o : out) (md : bytes) (pad : N)
         (fp mp : bytes) (psz : N),
  ilen inp <= U64MAX -> (forall t, cumulative_mdat_box_size cfg = Some t -> t <= U32MAX) ->
  mp4_sanitize cfg lenient U64MAX' inp fuel = Ok o -> o_metadata o = Some (md, pad) ->
  metadata_shape (md_input md pad) = Some (fp, mp, psz) -> psz <> 0 ->
  blen md + pad = s_off (o_data o).
Proof. exact C01_pad_means_zero_shift_lemma. Qed.
Print Assumptions C01_pad_means_zero_shift.

Theorem C01_overflow_rejected_toplevel :
  forall (cfg : config) (lenient : bool) (inp : input) (fuel : nat) (bs : list tbox),
  max_metadata_size cfg < 4294967296 -> ilen inp <= U64MAX ->
  (forall t, cumulative_mdat_box_size cfg = Some t -> t <= U32MAX) ->
  tiling (cumulative_mdat_box_size cfg) inp = Some bs ->
  (plan_of inp bs = Some Refuse \/
   exists d m ts t e, plan_of inp bs = Some (Shift d) /\ last_moov bs = Some m /\
     co_tables (tb_payload inp m) = Some ts /\ In t ts /\ In e (snd t) /\ shift (fst t) d e = None) ->
  is_ok (mp4_sanitize cfg lenient U64MAX' inp fuel) = false.
Proof. exact C01_overflow_rejected_toplevel_lemma. Qed.
Print Assumptions C01_overflow_rejected_toplevel.

