(* C09, WebP half - totality of the modelled logic of webpsan: Ok or Err, never a panic, never non-termination.
   Statements only; proofs in Webp/ContainerProofsTotal.v (container) and Webp/Vp8lProofs*.v (lossless validator).
   [rgood r]: r is neither [Panic _] nor [OutOfFuel]. *)
From Coq Require Import List NArith Bool.
From Coq.Strings Require Import Byte.
From MS Require Import Base.Bytes Base.Outcome Base.Prog Webp.Container Webp.Vp8l Webp.ContainerProofsTotal Webp.Vp8lProofsTop
  Webp.Vp8lProofsTotal Webp.WebpTotalProofs.
Open Scope N_scope.

(* the container programme (ChunkReader protocol assertions: read_data/skip_data/ChunkDataReader in PeekingHeader state,
   the `stream_position - 8` subtraction, parent of the root level, fixed-size slice accesses of the chunk parsers):
   no Panic outcome is reachable, for every input, both configurations, strict and seek-style readers, every seek bound
   and EVERY fuel, given a lossless validator that itself never panics or runs out of fuel on the dimensions a container
   can pass ([ldims w h]: 0 < w, h <= 2^24) *)
Theorem C09_webp_container_no_panic :
  forall (lossless : N -> N -> bytes -> res unit) (allow lenient : bool) (ms : N) (inp : input) (fuel : nat),
  (forall w h b, ldims w h -> rgood (lossless w h b)) ->
  forall n, webp_sanitize lossless allow lenient ms inp fuel <> Panic n.
Proof. exact webp_sanitize_no_panic. Qed.
Print Assumptions C09_webp_container_no_panic.

(* termination: every loop iteration (trailing chunks, frames, chunks inside a frame) consumes a chunk header of 8
   bytes lying inside the input, so ilen/8 + 1 iterations of fuel always suffice *)
Theorem C09_webp_container_terminates :
  forall (lossless : N -> N -> bytes -> res unit) (allow lenient : bool) (ms : N) (inp : input) (fuel : nat),
  (forall w h b, ldims w h -> rgood (lossless w h b)) -> (N.to_nat (ilen inp / 8) < fuel)%nat ->
  webp_sanitize lossless allow lenient ms inp fuel <> OutOfFuel.
Proof. exact webp_sanitize_terminates. Qed.
Print Assumptions C09_webp_container_terminates.

(* the lossless validator (LosslessImage::read and everything below it: LZ77 arithmetic, DISTANCE_MAP index,
   len_in_blocks, transform dispatch, the zero-length-code fill that guarantees progress): Ok or a parse error for every
   byte string and all dimensions a canvas, a VP8L header or a frame of at most 2^32-1 pixels can carry; its loops run
   on internal fuel proved sufficient *)
Theorem C09_webp_lossless_total :
  forall (w h : N) (body : bytes), dims w h ->
  lossless_read w h body = Ok tt \/ exists e, lossless_read w h body = EParse e.
Proof. exact model_total. Qed.
Print Assumptions C09_webp_lossless_total.

(* ... and for every dimension pair a container can pass, 0 < w, h <= 2^24, whatever the pixel count (an ANMF frame header
   can declare 2^24 x 2^24 pixels; the code saturates the count at 2^32-1): Ok or a parse error *)
Theorem C09_webp_lossless_total_wide :
  forall (w h : N) (body : bytes), 0 < w <= 2 ^ 24 /\ 0 < h <= 2 ^ 24 ->
  lossless_read w h body = Ok tt \/ exists e, lossless_read w h body = EParse e.
Proof. exact model_total_wide. Qed.
Print Assumptions C09_webp_lossless_total_wide.

(* the whole modelled webpsan (container + lossless validator): no hypothesis left *)
Theorem C09_webp_no_panic :
  forall (allow lenient : bool) (ms : N) (inp : input) (fuel : nat) (n : N),
  webp_sanitize lossless_read allow lenient ms inp fuel <> Panic n.
Proof. exact webpsan_no_panic. Qed.
Print Assumptions C09_webp_no_panic.

Theorem C09_webp_terminates :
  forall (allow lenient : bool) (ms : N) (inp : input) (fuel : nat),
  (N.to_nat (ilen inp / 8) < fuel)%nat -> webp_sanitize lossless_read allow lenient ms inp fuel <> OutOfFuel.
Proof. exact webpsan_terminates. Qed.
Print Assumptions C09_webp_terminates.
