(* C13, WebP half - I/O failures are propagated; truncation is a parse error.
   Statements only; proofs in Webp/ContainerProofsFault.v on top of the generic fault theorem of Base/ProgProofs.v.
   The programme is Webp/Container.v's [webp_prog] (webpsan::sanitize_with_config over the abstract reader); the
   lossless validator is a pure parameter of it. *)
From Coq Require Import List NArith Bool.
From Coq.Strings Require Import Byte.
From MS Require Import Base.Bytes Base.Outcome Base.Prog Base.ProgSpec Webp.Container Webp.ContainerProofsFault
  Webp.ContainerProofsTotal Webp.Vp8l Webp.WebpTotalProofs.
Open Scope N_scope.

(* for every reader, reader state, operation index, error kind, configuration, lossless validator and fuel: a fault at
   I/O operation index k is never reached (and the run is the fault-free run), or the result is Io e, or
   TruncatedChunk when e = UnexpectedEof; never Ok, never a panic *)
Theorem C13_fault_propagates_webp :
  forall (lossless : N -> N -> bytes -> res unit) (allow : bool) (fuel : nat) (R : reader) (s : rst R) (k : nat) (e : ioerr),
  let p := webp_prog lossless allow fuel in
  ((op_count R p s <= k)%nat /\ run_fault R p s k e = run R p s)
  \/ ((k < op_count R p s)%nat /\
      (fst (run_fault R p s k e) = EIo e \/
       (e = EUnexpectedEof /\ fst (run_fault R p s k e) = EParse TruncatedChunk))).
Proof. exact fault_propagates_webp. Qed.
Print Assumptions C13_fault_propagates_webp.

(* the same for a reader that fails by itself: the first error answer of the run decides the result *)
Theorem C13_reader_error_propagates_webp :
  forall (lossless : N -> N -> bytes -> res unit) (allow : bool) (fuel : nat) (R : reader) (s : rst R) (o : op) (e : ioerr),
  let p := webp_prog lossless allow fuel in
  first_err R p s = Some (o, e) ->
  fst (run R p s) = EIo e \/ (e = EUnexpectedEof /\ fst (run R p s) = EParse TruncatedChunk).
Proof. exact reader_error_propagates_webp. Qed.
Print Assumptions C13_reader_error_propagates_webp.

(* fault-free inputs: never an I/O error.  A strict cursor (Skip that fails at the end of the input) answers only
   UnexpectedEof, which every site of the chunk reader maps to TruncatedChunk; a seek-style cursor fails only when a
   skip target exceeds its seek bound, and every skip of webpsan ends at most 2^32 bytes after a chunk header lying
   inside the input: with ilen + 2^32 <= bound (in memory: ilen < 2^63, bound 2^64-1) none does.  For every input, both
   configurations, every fuel, and every lossless validator that itself reports no I/O error and does not panic. *)
Theorem C13_no_spurious_io_webp :
  forall (lossless : N -> N -> bytes -> res unit) (allow lenient : bool) (ms : N) (inp : input) (fuel : nat),
  (forall w h b, ldims w h -> rgood (lossless w h b)) -> (forall w h b e, ldims w h -> lossless w h b <> EIo e) ->
  (lenient = true -> ilen inp + 2 ^ 32 <= ms) ->
  forall e, webp_sanitize lossless allow lenient ms inp fuel <> EIo e.
Proof. exact webp_sanitize_no_io. Qed.
Print Assumptions C13_no_spurious_io_webp.

(* with the lossless validator of the model plugged in: fault-free inputs give Ok or a parse error, never Io *)
Theorem C13_no_spurious_io_webpsan :
  forall (allow lenient : bool) (ms : N) (inp : input) (fuel : nat) (e : ioerr),
  (lenient = true -> ilen inp + 2 ^ 32 <= ms) ->
  webp_sanitize lossless_read allow lenient ms inp fuel <> EIo e.
Proof. exact webpsan_no_io. Qed.
Print Assumptions C13_no_spurious_io_webpsan.
