(* C14 (c) / C06: the names the two trailing-chunk loops reject as KNOWN chunks out of place are the names the SOURCE lists now.
   Gen/WebpKnown.v is rewritten on every run from webpsan/src/lib.rs; the model's test at both sites is membership in the regenerated
   list of that site - so `allow_unknown_chunks` can only ever concern names outside those lists.  Proofs in Webp/KnownProofs.v. *)
From Coq Require Import List NArith Bool.
From Coq.Strings Require Import Byte.
From MS Require Import Base.Bytes Base.Outcome Base.Prog Webp.Container Gen.WebpKnown Webp.KnownProofs.
Import ListNotations.

Theorem C14_known_names_file_are_source : forall n : bytes,
  known_after_image n || teq n ANMF = existsb (teq n) KNOWN_TRAILING_FILE_SRC.
Proof. exact known_file_is_src. Qed.
Print Assumptions C14_known_names_file_are_source.

Theorem C14_known_names_frame_are_source : forall n : bytes,
  known_after_image n || teq n ANMF = existsb (teq n) KNOWN_TRAILING_FRAME_SRC.
Proof. exact known_frame_is_src. Qed.
Print Assumptions C14_known_names_frame_are_source.
