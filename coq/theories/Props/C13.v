(* C13 - I/O failures are propagated; truncation is a parse error (MP4 half; the WebP half is added with the webp model).
   Statements only; proofs in Base/ProgProofs.v (generic, by induction on prog) and Mp4/SanProgProofs.v.
   Vocabulary: Base/Prog.v (prog, reader, run, run_fault: fault at I/O operation index k answering RErr e, op_count,
   cursor), Base/ProgSpec.v (propagating, fault_result, first_err), Mp4/San.v (sanitize_prog, mp4_sanitize). *)
From Coq Require Import List NArith Bool.
From MS Require Import Base.Bytes Base.Outcome Base.Prog Base.ProgSpec Base.ProgProofs Mp4.San Mp4.SanProgProofs.
Open Scope N_scope.

(* the generic theorem, once for all programmes: a programme in which every I/O site answers an error by returning
   Io e (or, at a map_eof site, a parse error in T when e = UnexpectedEof) turns a fault at operation index k into
   exactly that, or never reaches it *)
Theorem C13_fault_generic : forall (A : Type) (T : perr -> Prop) (p : prog A), propagating T p ->
  forall (R : reader) (s : rst R) (k : nat) (e : ioerr),
    ((op_count R p s <= k)%nat /\ run_fault R p s k e = run R p s)
    \/ ((k < op_count R p s)%nat /\ fault_result T e (fst (run_fault R p s k e))).
Proof. exact (@run_fault_spec). Qed.
Print Assumptions C13_fault_generic.

(* the MP4 sanitizer: for every reader, reader state, operation index, error kind, configuration and fuel *)
Theorem C13_fault_propagates_mp4 : forall (cfg : config) (fuel : nat) (R : reader) (s : rst R) (k : nat) (e : ioerr),
  let p := sanitize_prog cfg fuel in
  ((op_count R p s <= k)%nat /\ run_fault R p s k e = run R p s)
  \/ ((k < op_count R p s)%nat /\
      (fst (run_fault R p s k e) = EIo e \/
       (e = EUnexpectedEof /\ fst (run_fault R p s k e) = EParse TruncatedBox))).
Proof. exact fault_propagates_mp4. Qed.
Print Assumptions C13_fault_propagates_mp4.

(* the same for a reader that fails by itself (e.g. the buffered reader over a faulty stream): the first error answer
   of the run decides the result *)
Theorem C13_reader_error_propagates_mp4 : forall (cfg : config) (fuel : nat) (R : reader) (s : rst R) (o : op) (e : ioerr),
  let p := sanitize_prog cfg fuel in
  first_err R p s = Some (o, e) ->
  fst (run R p s) = EIo e \/ (e = EUnexpectedEof /\ fst (run R p s) = EParse TruncatedBox).
Proof. exact reader_error_propagates_mp4. Qed.
Print Assumptions C13_reader_error_propagates_mp4.

(* fault-free in-memory inputs (lengths below 2^63, seek targets up to 2^64-1): never an Io error, except InvalidData
   from a seek-style skip whose target exceeds 2^64-1; never on a strict reader *)
Theorem C13_no_spurious_io : forall (cfg : config) (fuel : nat) (inp : input) (lenient : bool) (e : ioerr),
  ilen inp <= 9223372036854775807 ->
  mp4_sanitize cfg lenient 18446744073709551615 inp fuel = EIo e -> lenient = true /\ e = EInvalidData.
Proof. exact no_spurious_io_in_memory. Qed.
Print Assumptions C13_no_spurious_io.

(* ... precisely, for any largest seek target max_seek: an Io error is the answer of a failed seek-style skip of n
   bytes at a position pos inside the input with pos + n > max_seek: InvalidData when n > i64::MAX and the target
   exceeds u64::MAX, InvalidInput otherwise (files: finding D11) *)
Theorem C13_io_only_from_failed_skip : forall (cfg : config) (fuel : nat) (inp : input) (lenient : bool) (max_seek : N) (e : ioerr),
  mp4_sanitize cfg lenient max_seek inp fuel = EIo e ->
  lenient = true /\
  exists n pos, pos <= ilen inp /\ max_seek < pos + n /\
    e = (if (9223372036854775807 <? n) && (18446744073709551615 <? pos + n) then EInvalidData else EInvalidInput).
Proof. exact no_spurious_io. Qed.
Print Assumptions C13_io_only_from_failed_skip.
