(* C10, WebP half - webpsan's memory requests are bounded by constants independent of declared image dimensions and
   chunk sizes (the modelled part; real peak heap is sampled by the harness).
   Statements only; proofs in Webp/ResourceProofs.v. *)
From Coq Require Import List NArith Bool.
From Coq.Strings Require Import Byte.
From MS Require Import Base.Bytes Base.Outcome Base.Prog Base.ProgSpec Webp.Container Webp.Huffman Webp.ResourceProofs.
Open Scope N_scope.

(* every allocation event of the container programme (ChunkReader::read_data: the only place where the container code
   allocates a buffer sized by its argument) is at most 16 bytes, at every step of every run: any reader, any reader
   state, any lossless validator, both configurations, any fuel.  [amon 16] is the monitor that refuses a larger
   allocation; all_steps says it never refuses and the bound holds at every step. *)
Theorem C10_webp_container_alloc_bounded :
  forall (lossless : N -> N -> bytes -> res unit) (allow : bool) (fuel : nat) (R : reader) (s : rst R),
  all_steps (amon 16) R (fun _ _ o _ => alloc_ok 16 o) (webp_prog lossless allow fuel) s tt.
Proof. exact webp_container_alloc_bounded. Qed.
Print Assumptions C10_webp_container_alloc_bounded.

(* a prefix-code tree accepted by CanonicalHuffmanTree::new over an alphabet of [length cl] symbols has one leaf per
   used symbol - at most the alphabet size - and exactly one internal node fewer: its size is bounded by the alphabet
   (at most 2328 = 256 + 24 + 2^11 symbols), never by image dimensions or chunk sizes *)
Theorem C10_webp_tree_size_bounded :
  forall (cl : list N) (t : htree), new_vec cl = Ok t ->
  fleaves (ht_tree t) = length (symbols (index_from 0 cl))
  /\ (fleaves (ht_tree t) <= length cl)%nat
  /\ S (fnodes (ht_tree t)) = fleaves (ht_tree t).
Proof. exact accepted_tree_size. Qed.
Print Assumptions C10_webp_tree_size_bounded.

(* the tables bitstream-io compiles from an accepted tree (model of compile_read_tree / compile_queue in
   Webp/Huffman.v [total_tables], compared with the retained heap of CanonicalHuffmanTree::new on every run): exactly
   one 256-entry table per leaf, at most the alphabet size *)
Theorem C10_webp_tables_bounded :
  forall (cl : list N) (t : htree), new_vec cl = Ok t ->
  total_tables (ht_tree t) = length (symbols (index_from 0 cl)) /\ (total_tables (ht_tree t) <= length cl)%nat.
Proof. exact accepted_tree_tables. Qed.
Print Assumptions C10_webp_tables_bounded.
