(* C16 and finding D9 inside the model.  Mp4/BoxFail.v gives the lazily parsed box tree a state AFTER A FAILED accessor call
   (what the failing parser had consumed of the child's BytesMut); the `lazy` cases of the correspondence batch compare that
   state with the Rust value byte for byte (put_buf and encoded_len after the failed call).  Statements only; proofs in
   Mp4/BoxFailProofs.v. *)
From Coq Require Import List NArith Bool.
From MS Require Import Base.Bytes Base.Outcome Mp4.Header Mp4.Box Mp4.BoxLazy Mp4.BoxOps Mp4.BoxEdit Mp4.BoxFail Mp4.BoxFailProofs.
Import ListNotations.
Open Scope N_scope.

(* the state-passing model and the model of Mp4/BoxOps.v (about which C16_lazy_ops_roundtrip speaks) report the same failure -
   same call, same error - and hold the same tree whenever no call fails: they differ exactly in having a state after a failure *)
Theorem C16_failing_model_agrees : forall (ops : list (nat * nat)) (step : nat) (kids : list node),
  snd (run_ops_st ops step kids) = fail_unit (snd (run_ops ops step kids)) /\
  (snd (run_ops ops step kids) = None -> fst (run_ops_st ops step kids) = fst (run_ops ops step kids)).
Proof. exact run_ops_st_agrees. Qed.

(* the shape of D9: a forcing that fails leaves the same header over a SUFFIX of the child's payload (a prefix was consumed,
   nothing else changed); one that succeeds is the forcing of Mp4/Box.v *)
Theorem C16_D9_container_shape : forall n : node, let '(n', o) := force_cont_st n in
  match o with
  | Ok _ => force_cont n = Ok n'
  | _ => exists h d pre, n = Raw h d /\ d = pre ++ boxes_resid (boxes_fuel d) d /\ n' = Raw h (boxes_resid (boxes_fuel d) d)
  end.
Proof. exact force_cont_st_shape. Qed.

Theorem C16_D9_table_shape : forall (w : N) (n : node), let '(n', o) := force_table_st w n in
  match o with
  | Ok _ => force_table w n = Ok n'
  | _ => exists h d pre, n = Raw h d /\ d = pre ++ table_resid w d /\ n' = Raw h (table_resid w d)
  end.
Proof. exact force_table_st_shape. Qed.

(* C16's first clause holds in EVERY history of accessor calls, the failing ones included: whatever the calls left behind, what
   put_buf writes (calculated headers, Mp4/BoxEdit.v) has exactly encoded_len bytes - D9 is a violation of the round trip only *)
Theorem C16_len_agrees_in_every_history : forall (p : bytes) (kids : list node) (ops : list (nat * nat)) (b : bytes),
  parse_moov p = Ok kids ->
  puts_calc (fst (run_ops_st ops 0 kids)) = Ok b -> lens_calc (fst (run_ops_st ops 0 kids)) = Ok (N.of_nat (length b)).
Proof. exact len_agrees_in_every_history. Qed.

Print Assumptions C16_failing_model_agrees.
Print Assumptions C16_D9_container_shape.
Print Assumptions C16_D9_table_shape.
Print Assumptions C16_len_agrees_in_every_history.
