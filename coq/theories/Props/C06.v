(* C06 - WebP: accepted iff RIFF framing and the chunk grammar are exactly right.
   Statements only; proofs in Webp/ContainerProofs{,Tiles,Sound,Complete,Fuel,Top}.v.
   [webp_sanitize lossless allow lenient ms inp fuel] is the model of webpsan::sanitize_with_config (Webp/Container.v)
   run over the ideal cursor on [inp]: strict Skip (lenient = false) or seek-style Skip that may move past the end
   (lenient = true, positions up to ms).  [Grammar.webp_spec] is the independent recogniser written from the property
   text.  The validity of a lossless payload is a parameter: the SAME function [lossless] on both sides
   (the grammar takes its verdict), so the theorems hold for whichever lossless validator is plugged in
   (Webp/Vp8l.v in the extracted model). *)
From Coq Require Import List NArith Bool.
From Coq.Strings Require Import Byte.
From MS Require Import Base.Bytes Base.Outcome Base.Prog Webp.Container Webp.Grammar Webp.ContainerProofsSound
  Webp.ContainerProofsFuel Webp.ContainerProofsTop.
Open Scope N_scope.

(* soundness: accepted => the grammar holds.  Every input, both configurations, strict and seek-style readers, every
   seek bound, every fuel. *)
Theorem C06_sound :
  forall (lossless : N -> N -> bytes -> res unit) (allow lenient : bool) (ms : N) (inp : input) (fuel : nat),
  webp_sanitize lossless allow lenient ms inp fuel = Ok tt ->
  webp_spec (fun w h b => is_ok (lossless w h b)) allow inp = true.
Proof. exact webp_sanitize_sound. Qed.
Print Assumptions C06_sound.

(* completeness: the grammar holds => accepted (ilen/8 + 1 iterations of fuel suffice: every chunk takes 8 bytes) *)
Theorem C06_complete :
  forall (lossless : N -> N -> bytes -> res unit) (allow lenient : bool) (ms : N) (inp : input) (fuel : nat),
  ilen inp <= ms -> (N.to_nat (ilen inp / 8) < fuel)%nat ->
  webp_spec (fun w h b => is_ok (lossless w h b)) allow inp = true ->
  webp_sanitize lossless allow lenient ms inp fuel = Ok tt.
Proof. exact webp_sanitize_complete. Qed.
Print Assumptions C06_complete.

(* the two together, as the property states it *)
Theorem C06_accept_iff_grammar :
  forall (lossless : N -> N -> bytes -> res unit) (allow lenient : bool) (ms : N) (inp : input) (fuel : nat),
  ilen inp <= ms -> (N.to_nat (ilen inp / 8) < fuel)%nat ->
  is_ok (webp_sanitize lossless allow lenient ms inp fuel) = webp_spec (fun w h b => is_ok (lossless w h b)) allow inp.
Proof. exact webp_sanitize_iff. Qed.
Print Assumptions C06_accept_iff_grammar.

(* fuel is only a bound: a run that does not end in OutOfFuel is the run with any larger fuel *)
Theorem C06_fuel_irrelevant :
  forall (lossless : N -> N -> bytes -> res unit) (allow lenient : bool) (ms : N) (inp : input) (f f' : nat),
  (f <= f')%nat ->
  webp_sanitize lossless allow lenient ms inp f <> OutOfFuel ->
  webp_sanitize lossless allow lenient ms inp f' = webp_sanitize lossless allow lenient ms inp f.
Proof. exact webp_fuel_monotone. Qed.
Print Assumptions C06_fuel_irrelevant.
