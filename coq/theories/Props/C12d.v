(* C12, finding D7 in full: what SeekSkipAdapter::poll_stream_len over a Pending AsyncSeek can do, for the in-memory cursor and EVERY
   schedule.  Statement only; proof in Base/AsyncD7Proofs.v (induction on the executor's fuel; the restart after a suspended restoring
   seek runs from the end of the stream). *)
From Coq Require Import List NArith ZArith Bool.
From MS Require Import Base.Bytes Base.Outcome Base.Cursor Base.Adapters Base.Async Base.AsyncSpec Base.AsyncD7Proofs.
Open Scope N_scope.

(* whatever the schedule: the executor terminates, the value is the right length, the bytes are untouched, and the cursor is either
   where it was (the synchronous behaviour) or at the end of the stream (the defect) - no third possibility *)
Theorem C12_poll_stream_len_D7_is_all : forall (c : cur) (sc : sch), small c ->
  exists s' sc', drive_all (apoll_len (pending_seeker (std_cursor U64MAXN))) c sc = Some (Ok (clen c), s', sc') /\
                 cdata s' = cdata c /\ (cpos s' = cpos c \/ cpos s' = clen c).
Proof. exact d7_shape_all. Qed.
Print Assumptions C12_poll_stream_len_D7_is_all.
