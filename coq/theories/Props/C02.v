(* C02 - returned metadata is self-contained: part (a), the shape of the returned metadata.
   Statements only; proofs in Mp4/LoopProofsMeta.v (on Mp4/HeaderProofs.v and the closed form of the loop).
   Part (b), re-sanitizing metadata||media is a no-op: C02_fixpoint, proof in Mp4/LoopProofsFixpoint.v. *)
From Coq Require Import List NArith ZArith Bool.
From Coq.Strings Require Import Byte.
From MS Require Import Base.Bytes Base.Outcome Base.Prog Mp4.Header Mp4.Box Mp4.San Mp4.Spec Mp4.SpliceSpec Mp4.LoopProofsMeta Mp4.LoopProofsFixpoint.
Import ListNotations.
Open Scope N_scope.

(* Whatever the reader and the configuration: returned metadata (md followed by pad zero bytes) is, as the
   specification's recogniser reads it, exactly an ftyp box, a moov box and optionally one free box of zeros
   (psz = its total size = 8 + pad), tiling md||zeros completely, and no header uses the to-end-of-file size. *)
Theorem C02_metadata_is_boxes :
  forall (cfg : config) (lenient : bool) (ms : N) (inp : input) (fuel : nat) (o : out) (md : bytes) (pad : N),
  mp4_sanitize cfg lenient ms inp fuel = Ok o -> o_metadata o = Some (md, pad) ->
  exists fp mp psz,
    metadata_shape (md_input md pad) = Some (fp, mp, psz) /\
    explicit_sizes (md_input md pad) = true /\
    ((psz = 0 /\ pad = 0) \/ psz = 8 + pad).
Proof. exact metadata_is_boxes. Qed.
Print Assumptions C02_metadata_is_boxes.

(* ... and the ftyp payload is the input's ftyp payload, the moov payload has the length of the input's last moov
   payload (what its bytes are is the subject of C01 / C04) *)
Theorem C02_metadata_is_boxes_of_input :
  forall (cfg : config) (lenient : bool) (inp : input) (fuel : nat) (o : out) (md : bytes) (pad : N),
  ilen inp <= U64MAX -> (forall t, cumulative_mdat_box_size cfg = Some t -> t <= U32MAX) ->
  mp4_sanitize cfg lenient U64MAX' inp fuel = Ok o -> o_metadata o = Some (md, pad) ->
  exists bs f m mp psz,
    tiling (cumulative_mdat_box_size cfg) inp = Some bs /\ the_ftyp bs = Some f /\ last_moov bs = Some m /\
    metadata_shape (md_input md pad) = Some (tb_payload inp f, mp, psz) /\
    blen mp = blen (tb_payload inp m) /\
    explicit_sizes (md_input md pad) = true /\
    ((psz = 0 /\ pad = 0) \/ psz = 8 + pad).
Proof. exact metadata_is_boxes_of_input. Qed.
Print Assumptions C02_metadata_is_boxes_of_input.

(* (b) the file obtained by writing the returned metadata (md, then pad zero bytes) followed by the media span of the
   input (Mp4/SpliceSpec.v: splice) is accepted again, by either kind of reader, with no metadata to rewrite and the
   span (|md| + pad, len) -- for every input (until-EOF boxes in the media run included), every configuration with
   limit < 2^32, whenever the spliced file has a u64 length; ilen/8 + 1 units of fuel suffice. *)
Theorem C02_fixpoint :
  forall (cfg : config) (lenient lenient2 : bool) (inp : input) (fuel fuel2 : nat) (o : out) (md : bytes) (pad : N),
  max_metadata_size cfg < 4294967296 -> ilen inp <= U64MAX ->
  (forall t, cumulative_mdat_box_size cfg = Some t -> t <= U32MAX) ->
  mp4_sanitize cfg lenient U64MAX' inp fuel = Ok o -> o_metadata o = Some (md, pad) ->
  let J := splice md pad inp (s_off (o_data o)) (s_len (o_data o)) in
  ilen J <= U64MAX -> (N.to_nat (ilen J / 8) < fuel2)%nat ->
  mp4_sanitize cfg lenient2 U64MAX' J fuel2 =
  Ok {| o_metadata := None; o_data := {| s_off := blen md + pad; s_len := s_len (o_data o) |} |}.
Proof. intros cfg lenient lenient2 inp fuel fuel2 o md pad Hm Hl Hc. exact (resanitize_fixpoint cfg inp lenient lenient2 Hm Hl Hc fuel fuel2 o md pad). Qed.
Print Assumptions C02_fixpoint.
