(* C02 - returned metadata is self-contained: part (a), the shape of the returned metadata.
   Statements only; proofs in Mp4/LoopProofsMeta.v (on Mp4/HeaderProofs.v and the closed form of the loop).
   Part (b), re-sanitizing metadata||media is a no-op (C02_fixpoint), is not proved here; it is exercised by the
   second run of the differential check (lib/props/c02.py). *)
From Coq Require Import List NArith ZArith Bool.
From Coq.Strings Require Import Byte.
From MS Require Import Base.Bytes Base.Outcome Base.Prog Mp4.Header Mp4.Box Mp4.San Mp4.Spec Mp4.LoopProofsMeta.
Import ListNotations.
Open Scope N_scope.

(* Whatever the reader and the configuration: returned metadata (md followed by pad zero bytes) is, as the
   specification's recogniser reads it, exactly an ftyp box, a moov box and optionally one free box of zeros
   (psz = its total size = 8 + pad), tiling md||zeros completely, and no header uses the to-end-of-file size. *)
Theorem C02_metadata_is_boxes :
  forall (cfg : config) (lenient : bool) (ms : N) (inp : input) (fuel : nat) (o : out) (md : bytes) (pad : N),
  mp4_sanitize cfg lenient ms inp fuel = Ok o -> o_metadata o = Some (md, pad) ->
  exists fp mp psz,
    metadata_shape (md_input md pad) = Some (fp, mp, psz) /\
    explicit_sizes (md_input md pad) = true /\
    ((psz = 0 /\ pad = 0) \/ psz = 8 + pad).
Proof. exact metadata_is_boxes. Qed.
Print Assumptions C02_metadata_is_boxes.

(* ... and the ftyp payload is the input's ftyp payload, the moov payload has the length of the input's last moov
   payload (what its bytes are is the subject of C01 / C04) *)
Theorem C02_metadata_is_boxes_of_input :
  forall (cfg : config) (lenient : bool) (inp : input) (fuel : nat) (o : out) (md : bytes) (pad : N),
  ilen inp <= U64MAX -> (forall t, cumulative_mdat_box_size cfg = Some t -> t <= U32MAX) ->
  mp4_sanitize cfg lenient U64MAX' inp fuel = Ok o -> o_metadata o = Some (md, pad) ->
  exists bs f m mp psz,
    tiling (cumulative_mdat_box_size cfg) inp = Some bs /\ the_ftyp bs = Some f /\ last_moov bs = Some m /\
    metadata_shape (md_input md pad) = Some (tb_payload inp f, mp, psz) /\
    blen mp = blen (tb_payload inp m) /\
    explicit_sizes (md_input md pad) = true /\
    ((psz = 0 /\ pad = 0) \/ psz = 8 + pad).
Proof. exact metadata_is_boxes_of_input. Qed.
Print Assumptions C02_metadata_is_boxes_of_input.
