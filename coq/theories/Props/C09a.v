(* C09 for the asynchronous entry point: under EVERY Pending schedule the poll-level run of the MP4 sanitizer over any adapter
   stack on in-memory data completes (the executor's re-polling terminates), and its result is neither a panic nor a fuel
   exhaustion.  Composition of C12_mp4_async_is_model (schedule independence + C11's stack refinement) with C09_mp4_no_panic /
   C09_mp4_terminates.  Statement and the composing proof only. *)
From Coq Require Import List NArith ZArith Bool Lia.
From MS Require Import Base.Bytes Base.Outcome Base.Cursor Base.Adapters Base.Async Base.AsyncSpec Base.AsyncSan
  Base.StackReader Base.StackSpec Base.StackProofsTop Mp4.Header Mp4.San Gen.Consts Props.C09 Props.C12s.
From MS Require Base.Prog.
Open Scope N_scope.

Theorem C09_mp4_async_total : forall (cfg : config) (fuel : nat) (st : stk) (data : bytes) (sc : sch),
  stk_ok st -> blen data <= I64MAX ->
  max_metadata_size cfg < 4294967296 ->
  (forall t, cumulative_mdat_box_size cfg = Some t -> t <= U32MAX) ->
  (N.to_nat (blen data / 8) < fuel)%nat ->
  exists r s' sc',
    run_san_sched BOXHEADER_MAX_SIZE (pending_reader (stk_reader U64MAXN st)) (sanitize_prog cfg fuel) (stack_init U64MAXN st data) sc
      = Some (r, s', sc') /\
    (forall n, r <> Panic n) /\ r <> OutOfFuel.
Proof.
  intros cfg fuel st data sc Hok Hd Hmax Hcum Hfuel.
  assert (Hms : ms_ok (blen data) U64MAXN) by (unfold ms_ok, U64MAXN, I64MAX in *; lia).
  destruct (C12_mp4_async_is_model cfg fuel U64MAXN st data (input_of_list data) sc Hok Hd Hms (input_of_list_is data))
    as (s' & sc' & E).
  exists (mp4_sanitize cfg true U64MAXN (input_of_list data) fuel), s', sc'. split; [exact E|].
  assert (Hlen : Prog.ilen (input_of_list data) <= U64MAX) by (cbn [input_of_list Prog.ilen]; unfold U64MAX, I64MAX in *; lia).
  split.
  - intros n. exact (C09_mp4_no_panic cfg true (input_of_list data) fuel Hmax Hlen Hcum n).
  - apply (C09_mp4_terminates cfg true (input_of_list data) fuel Hmax Hlen Hcum). cbn [input_of_list Prog.ilen]. exact Hfuel.
Qed.
Print Assumptions C09_mp4_async_total.
