(* C16 - MP4 box codec: round trip and length agreement.  Statements only; proofs in Mp4/HeaderProofs.v.
   Parts (a) and (b): the box header.  (Part (c), the lazy box tree, is added below by its own area.) *)
From Coq Require Import List NArith Bool.
From MS Require Import Base.Bytes Base.Outcome Mp4.Header Mp4.HeaderSpec Mp4.HeaderProofs.
Open Scope N_scope.

(* (a) every well-formed header value serialises to encoded_len bytes that decode back to it (whatever follows),
       and everything the reader returns is well formed and is exactly the consumed prefix re-serialised. *)
Theorem C16_header_roundtrip :
  (forall (h : header) (r : bytes), hdr_wf h = true ->
     hdr_read (hdr_put h ++ r) = Some (h, r) /\ N.of_nat (length (hdr_put h)) = encoded_len h)
  /\ (forall (l : bytes) (h : header) (r : bytes), hdr_read l = Some (h, r) ->
        hdr_wf h = true /\ l = hdr_put h ++ r).
Proof. exact header_roundtrip. Qed.
Print Assumptions C16_header_roundtrip.

(* (b) constructed headers: declare exactly header + payload, 64-bit form iff needed, size field never 0/1 in the
       compact form, decode back to themselves; error exactly on u64 overflow, never a panic. *)
Theorem C16_header_constructors :
  forall (t : box_type) (n : N), type_wf t = true -> n <= U64MAX ->
  (forall h, with_data_size t n = Ok h ->
     htype h = t /\
     hdr_wf h = true /\
     box_data_size h = Ok (Some n) /\
     box_size_of h = Some (N.of_nat (length (hdr_put h)) + n) /\
     N.of_nat (length (hdr_put h)) = encoded_len h /\
     (is_ext h = true <-> U32MAX < n + short_len t) /\
     (is_ext h = false -> size_field32 h <> 0 /\ size_field32 h <> 1 /\ size_field32 h = n + short_len t) /\
     (is_ext h = true -> size_field32 h = 1 /\ size_field64 h = n + long_len t) /\
     (forall r, hdr_read (hdr_put h ++ r) = Some (h, r))) /\
  (with_data_size t n = EParse InvalidInput <-> U64MAX < n + long_len t) /\
  ((exists h, with_data_size t n = Ok h) \/ with_data_size t n = EParse InvalidInput) /\
  (n <= U32MAX -> with_data_size t n = Ok (with_u32_data_size t n)).
Proof. exact header_constructors. Qed.
Print Assumptions C16_header_constructors.
