(* C16 part (c) - the lazily parsed MP4 box tree: serialisation is invariant under successful forcings and its length
   is the encoded length.  Statements only; proofs in Mp4/BoxProofsLazy.v.
   (Finding D9 - a FAILED lazy parse leaves a shortened BytesMut behind: force_cont / force_table of Mp4/Box.v return an error
   and no new state; the state-passing model Mp4/BoxFail.v has that state, and Props/C16f.v ties the two together.) *)
From Coq Require Import List NArith Bool.
From MS Require Import Base.Bytes Base.Outcome Mp4.Header Mp4.Box Mp4.BoxLazy Mp4.BoxOps Mp4.BoxProofsLazy Mp4.BoxOpsProofs.
Open Scope N_scope.

(* for every list of boxes obtained by Boxes::parse and every sequence of successful forcings (lazy parses of
   children or tables, at any depth, in any order: the reflexive-transitive-congruence closure [forces]),
   put gives back exactly the parsed bytes *)
Theorem C16_lazy_roundtrip : forall (fuel : nat) (buf : bytes) (ns ns' : list node),
  parse_boxes fuel buf = Ok ns -> Forall2 forces ns ns' ->
  put_nodes ns = buf /\ put_nodes ns' = buf.
Proof. exact lazy_roundtrip. Qed.
Print Assumptions C16_lazy_roundtrip.

(* ... and the number of bytes written equals encoded_len, for the list and for every box in it *)
Theorem C16_encoded_len_agrees : forall (fuel : nat) (buf : bytes) (ns ns' : list node),
  parse_boxes fuel buf = Ok ns -> Forall2 forces ns ns' ->
  N.of_nat (length (put_nodes ns')) = nodes_encoded_len ns' /\
  nodes_encoded_len ns' = N.of_nat (length buf) /\
  (forall n, In n ns' -> N.of_nat (length (put_node n)) = node_encoded_len n).
Proof. exact encoded_len_agrees. Qed.
Print Assumptions C16_encoded_len_agrees.

(* the accessor chain the sanitizer uses (traks / mdia_mut / minf_mut / stbl_mut / co_mut on every trak) is such a
   sequence of forcings, so both theorems apply to the tree it leaves behind *)
Theorem C16_accessors_are_forcings : forall (kids kids' : list node) (cs : list N),
  each_trak kids tab_count = Ok (kids', cs) -> Forall2 forces kids kids'.
Proof. exact accessors_are_forcings. Qed.
Print Assumptions C16_accessors_are_forcings.

(* the moov arm as a whole: what it keeps serialises to the payload it read *)
Theorem C16_moov_roundtrip : forall (p : bytes) (kids : list node), moov_check p = Ok kids -> put_nodes kids = p.
Proof. exact moov_check_put. Qed.
Print Assumptions C16_moov_roundtrip.

(* after `set` of table entries the length is unchanged (that only the entry slots differ is C04_moov_identical_outside_tables) *)
Theorem C16_set_keeps_length : forall (f g : N -> res N) (kids kids' : list node) (l : list unit),
  each_trak kids (shift_table f g) = Ok (kids', l) -> length (put_nodes kids') = length (put_nodes kids).
Proof. exact each_trak_shift_length. Qed.
Print Assumptions C16_set_keeps_length.

(* the call sequences of the correspondence batch (kind `lazy`: for each step, MoovBox::traks() up to the i-th trak and
   the first k accessors of co_mut on it): whatever sequence, the tree after the last successful call serialises to
   the payload MoovBox::parse consumed and its encoded length is the number of bytes written *)
Theorem C16_lazy_ops_roundtrip : forall (p : bytes) (kids : list node) (ops : list (nat * nat)),
  parse_moov p = Ok kids ->
  put_nodes (fst (run_ops ops 0 kids)) = p /\
  N.of_nat (length (put_nodes (fst (run_ops ops 0 kids)))) = nodes_encoded_len (fst (run_ops ops 0 kids)).
Proof. exact run_ops_roundtrip. Qed.
Print Assumptions C16_lazy_ops_roundtrip.
