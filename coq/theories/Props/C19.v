(* C19 - bit-buffer refills are transparent.  Statements only; proofs in Webp/BitBufProofs*.v.
   Model: Webp/BitBuf.v (BitBufReader + bitstream_io BitReader<LE> + Take::read_to_end); ideal reader and consumer
   programmes: Webp/BitBufSpec.v; abs / inv / agrees / run_buf: Webp/BitBufRun.v.
     abs st   = unread bits of the buffer ++ bits of the bytes the underlying reader has not delivered yet
     agrees b st ideal model = same result, and on a value: inv, abs = the rest, same capacity, b bits still buffered
                               (or the source is exhausted)
   Every statement is for all states satisfying the invariant (all byte strings, all short-read oracles, all histories),
   all capacities as stated, with no bound on sizes. *)
From Coq Require Import List NArith Bool.
From MS Require Import Base.Bytes Base.Outcome Webp.BitBuf Webp.BitBufSpec Webp.BitBufRun
  Webp.BitBufProofs Webp.BitBufProofsProg.
Import ListNotations.
Open Scope N_scope.

(* the reader as constructed by with_capacity satisfies the invariant and stands for the whole byte string *)
Theorem C19_initial_state : forall src c,
  inv (with_capacity src c) /\ abs (with_capacity src c) = bits_of_bytes (sdata src).
Proof. exact inv_with_capacity. Qed.
Print Assumptions C19_initial_state.

(* fill_buf is transparent at EVERY refill position (full buffer included); afterwards the buffer is full
   (>= 8*capacity - 7 unread bits) or the source is exhausted.  `input = None` loses nothing. *)
Theorem C19_refill_preserves_abs : forall st,
  inv st ->
  exists st', fill_buf st = (Ok tt, st') /\ inv st' /\ cap st' = cap st /\ abs st' = abs st /\
              (8 * cap st - 7 <= buf_bits st' \/ src_rest st' = []).
Proof. exact refill_preserves_abs. Qed.
Print Assumptions C19_refill_preserves_abs.

(* the heart of "capacity >= 16": after a request for up to 121 bits (`if buf_bits() < r { fill_buf()? }`) r bits are
   buffered or the source is exhausted *)
Theorem C19_refill_on_request : forall st r,
  inv st -> 16 <= cap st -> r <= 121 ->
  exists st', ensure r st = (Ok tt, st') /\ inv st' /\ cap st' = cap st /\ abs st' = abs st /\
              (r <= buf_bits st' \/ src_rest st' = []).
Proof. exact refill_on_request. Qed.
Print Assumptions C19_refill_on_request.

Theorem C19_read_is_ideal : forall st,
  inv st -> 16 <= cap st ->
  (forall w n, w <= 64 -> agrees 0 st (ideal_read w n (abs st)) (read w n st)) /\
  agrees 0 st (ideal_read_bit (abs st)) (read_bit st) /\
  (forall d, decoder_ok d -> dc_longest d <= 121 ->
     agrees 0 st (ideal_read_code (dc_dec d) (abs st)) (read_huffman (hdec_of d) st)).
Proof. exact read_is_ideal. Qed.
Print Assumptions C19_read_is_ideal.

Theorem C19_eof_only_when_exhausted : forall st,
  inv st -> 16 <= cap st ->
  (forall w n, w <= 64 -> n <= w -> (fst (read w n st) = EParse TruncatedChunk <-> slen (abs st) < n)) /\
  (fst (read_bit st) = EParse TruncatedChunk <-> abs st = []) /\
  (forall d, decoder_ok d -> dc_longest d <= 121 ->
     (fst (read_huffman (hdec_of d) st) = EParse TruncatedChunk <-> dc_dec d (abs st) = None)).
Proof. exact eof_only_when_exhausted. Qed.
Print Assumptions C19_eof_only_when_exhausted.

(* once r bits are announced (buffered, or the source exhausted), any consumer whose buffer-only accesses stay within r
   bits until its next announcement (cwf m r p) sees exactly what the ideal reader delivers *)
Theorem C19_readahead_sufficient : forall (A : Type) (p : cprog A) st m r,
  inv st -> m + 7 <= 8 * cap st -> (r <= buf_bits st \/ src_rest st = []) -> cwf m r p ->
  run_buf p st = run_ideal p (abs st).
Proof. exact @readahead_sufficient. Qed.
Print Assumptions C19_readahead_sufficient.

(* one iteration of the pixel loop of EntropyCodedImage::read with the read-ahead the code computes
   (green + max(alpha+red+blue, green + 2*LZ77_MAX_LEN + dist)) stays within it, and 81 + 7 <= 8 * 16 *)
Theorem C19_entropy_iteration_within_readahead :
  forall (A : Type) (g r b a d : decoder) (k : cval -> cval -> cval -> cval -> cprog A) b0,
  decoder_ok g -> decoder_ok r -> decoder_ok b -> decoder_ok a -> decoder_ok d ->
  dc_longest g <= 15 -> dc_longest r <= 15 -> dc_longest b <= 15 -> dc_longest a <= 15 -> dc_longest d <= 15 ->
  (forall b' v1 v2 v3 v4, cwf 81 b' (k v1 v2 v3 v4)) ->
  81 + 7 <= 8 * 16 /\ cwf 81 b0 (entropy_iteration g r b a d k).
Proof. exact @entropy_iteration_within_readahead. Qed.
Print Assumptions C19_entropy_iteration_within_readahead.

(* any consumer programme (requests <= 121 bits) gives the same result for every capacity >= 16 and every short-read
   pattern: the result over the whole byte string *)
Theorem C19_verdict_capacity_independent :
  forall (A : Type) (p : cprog A) data c1 c2 o1 o2 i1 i2,
  16 <= c1 -> 16 <= c2 -> cwf 121 0 p ->
  run_buf p (with_capacity (mksrc data o1 i1) c1) = run_ideal p (bits_of_bytes data) /\
  run_buf p (with_capacity (mksrc data o1 i1) c1) = run_buf p (with_capacity (mksrc data o2 i2) c2).
Proof. exact @verdict_capacity_independent. Qed.
Print Assumptions C19_verdict_capacity_independent.
