(* C12 at sanitizer level: the MP4 sanitizer's programme (Mp4/San.v: every fill_buf().is_empty(), read_exact, skip,
   stream_position and stream_len it awaits, adaptively, for every input) over the futures BufReader it wraps its input
   in, under every Pending schedule.  Statements only; proofs in Base/AsyncSanProofs.v.
   [run_san_sched cap A p s sc] polls each operation's future (poll_fill_buf; futures' ReadExact over poll_read;
   poll_skip; poll_stream_position; poll_stream_len of BufReader<A> with capacity cap) until Ready under the schedule
   sc; [run_san_sync] is the same programme over the synchronous view of the same reader. *)
From Coq Require Import List NArith ZArith Bool.
From MS Require Import Base.Bytes Base.Outcome Base.Cursor Base.Adapters Base.Async Base.AsyncSpec Base.AsyncProofs
  Base.AsyncSan Base.AsyncSanProofs Base.AsyncSanLink Base.StackReader Base.StackSpec Mp4.San Gen.Consts.
From MS Require Base.Prog.
Import ListNotations.
Open Scope N_scope.

(* every programme over the sanitizer's operation set, every capacity, every schedule-independent inner reader *)
Theorem C12_sanitizer_ops_sched_indep : forall (cap : N) (A : areader), sched_indep_core A ->
  forall (X : Type) (p : Prog.prog X), (len_indep A \/ no_len_prog p) ->
  forall (s : bst (rst (ard A))) (sc : sch),
    exists sc', run_san_sched cap A p s sc =
                Some (fst (run_san_sync cap A p s), snd (run_san_sync cap A p s), sc').
Proof. intros cap A HA X p Hl s sc. exact (run_san_sched_sync cap A HA p Hl s sc). Qed.
Print Assumptions C12_sanitizer_ops_sched_indep.

(* the MP4 sanitizer itself (BufReader capacity BoxHeader::MAX_SIZE = 32), over an AsyncSkip-native reader that may answer
   Pending at every poll (and over any stack of forwarding wrappers and further BufReaders above it, by
   C12_bufreader_polls_sched_indep / C12_bases_sched_indep): every config, every fuel, every reader state, every schedule *)
Theorem C12_mp4_sanitizer_sched_indep : forall (cfg : config) (fuel : nat) (A : areader),
  sched_indep_core A -> len_indep A ->
  forall (s : bst (rst (ard A))) (sc : sch),
    exists sc', run_san_sched BOXHEADER_MAX_SIZE A (sanitize_prog cfg fuel) s sc =
                Some (fst (run_san_sync BOXHEADER_MAX_SIZE A (sanitize_prog cfg fuel) s),
                      snd (run_san_sync BOXHEADER_MAX_SIZE A (sanitize_prog cfg fuel) s), sc').
Proof. intros cfg fuel A HA HL s sc. exact (run_san_sched_sync BOXHEADER_MAX_SIZE A HA (sanitize_prog cfg fuel) (or_introl HL) s sc). Qed.
Print Assumptions C12_mp4_sanitizer_sched_indep.

Theorem C12_mp4_sanitizer_native_sched_indep : forall (cfg : config) (fuel : nat) (R : reader)
  (s : bst (rst (ard (pending_reader R)))) (sc : sch),
    exists sc', run_san_sched BOXHEADER_MAX_SIZE (pending_reader R) (sanitize_prog cfg fuel) s sc =
                Some (fst (run_san_sync BOXHEADER_MAX_SIZE (pending_reader R) (sanitize_prog cfg fuel) s),
                      snd (run_san_sync BOXHEADER_MAX_SIZE (pending_reader R) (sanitize_prog cfg fuel) s), sc').
Proof. intros cfg fuel R s sc. exact (mp4_sanitizer_native_sched_indep cfg fuel R s sc). Qed.
Print Assumptions C12_mp4_sanitizer_native_sched_indep.

(* end to end (C11 + C12): mp4san::sanitize_async over an AsyncSkip-native reader that may answer Pending at every poll,
   wrapping ANY adapter stack of Base/StackReader.v (Cursor / SeekSkipAdapter / BufReaders of any capacity / forwarding /
   short-read oracles) over in-memory data, returns under EVERY Pending schedule what the abstract model mp4_sanitize returns
   on those bytes - the function the theorems of C01-C05, C09, C10, C13 and C14 are about *)
Theorem C12_mp4_async_is_model : forall (cfg : config) (fuel : nat) (ms : N) (st : stk) (data : bytes) (inp : Prog.input) (sc : sch),
  stk_ok st -> blen data <= I64MAX -> ms_ok (blen data) ms -> inp_is inp data ->
  exists s' sc',
    run_san_sched BOXHEADER_MAX_SIZE (pending_reader (stk_reader ms st)) (sanitize_prog cfg fuel) (stack_init ms st data) sc
    = Some (mp4_sanitize cfg true ms inp fuel, s', sc').
Proof. intros cfg fuel ms st data inp sc. exact (mp4_async_native_is_model cfg fuel ms st data inp sc). Qed.
Print Assumptions C12_mp4_async_is_model.
