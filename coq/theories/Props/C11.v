(* C11 - same bytes, same answer: entry points, adapters and read chunking.
   Statements only; proofs in Base/StackProofs*.v.  Vocabulary: Base/Prog.v (programmes, run, cursor),
   Base/StackReader.v (stk, stack_reader = the sanitizer's own BufReader over the caller's adapter stack over a
   cursor with a short-read oracle; mp4_view), Base/StackSpec.v (lrefines, ms_ok, inp_is).
   The synchronous and asynchronous entry points run the same programme; in the model they differ by the
   AsyncInputAdapter layer only (mp4_view true / false). *)
From Coq Require Import List NArith ZArith Bool.
From MS Require Import Base.Bytes Base.Outcome Base.Cursor Base.Adapters Base.AdaptersSpec Base.Prog Base.StackReader
     Base.StackSpec Base.StackProofs Base.StackProofsView Base.StackProofsTop Base.StackProofsMp4 Base.StackProofsWebp Mp4.San Webp.Container.
Import ListNotations.
Open Scope N_scope.

(* the generic simulation lemma: related readers give equal results for EVERY programme *)
Theorem C11_simulation : forall (R1 R2 : Prog.reader) (rel : Prog.rst R1 -> Prog.rst R2 -> Prop),
  (forall o s1 s2, rel s1 s2 ->
     fst (Prog.rstep R1 o s1) = fst (Prog.rstep R2 o s2) /\ rel (snd (Prog.rstep R1 o s1)) (snd (Prog.rstep R2 o s2))) ->
  forall (A : Type) (p : Prog.prog A) s1 s2, rel s1 s2 ->
    fst (Prog.run R1 p s1) = fst (Prog.run R2 p s2) /\ rel (snd (Prog.run R1 p s1)) (snd (Prog.run R2 p s2)).
Proof. exact run_sim. Qed.
Print Assumptions C11_simulation.

(* every adapter stack (any depth, every BufReader capacity >= 1, every short-read oracle) refines the LENIENT seek-style
   cursor on ALL operations, including skips that leave the stream and skips refused above max_seek *)
Theorem C11_every_stack_lenient : forall (ms : N) (st : stk), stk_ok st ->
  exists (abs : Adapters.rst (stk_reader ms st) -> cur) (Inv : Adapters.rst (stk_reader ms st) -> Prop),
    lrefines ms (stk_reader ms st) abs Inv /\
    forall data, blen data <= I64MAX -> ms_ok (blen data) ms ->
      Inv (stk_init ms st data) /\ abs (stk_init ms st data) = {| cdata := data; cpos := 0 |}.
Proof. exact stk_lrefines. Qed.
Print Assumptions C11_every_stack_lenient.

(* a view = the sanitizer's own BufReader (any capacity >= 1, futures or std flavour) over such a stack: EVERY programme
   gives the result it gives over the lenient ideal cursor Prog.cursor inp true max_seek *)
Theorem C11_stack_refines_cursor :
  forall (own_cap : N) (stdf : bool) (ms : N) (st : stk) (data : bytes) (inp : input),
  1 <= own_cap -> stk_ok st -> blen data <= I64MAX -> ms_ok (blen data) ms -> inp_is inp data ->
  forall (A : Type) (p : Prog.prog A),
    fst (Prog.run (stack_reader own_cap stdf ms st) p (stack_init ms st data)) = fst (Prog.run (Prog.cursor inp true ms) p 0).
Proof. exact view_refines_cursor. Qed.
Print Assumptions C11_stack_refines_cursor.

(* in particular the MP4 sanitizer through any view is Mp4.San.mp4_sanitize, the model the other MP4 properties are about *)
Theorem C11_mp4_view_is_model :
  forall (cfg : config) (fuel : nat) (ms : N) (st : stk) (e : bool) (data : bytes) (inp : input),
  stk_ok st -> blen data <= I64MAX -> ms_ok (blen data) ms -> inp_is inp data ->
  fst (Prog.run (mp4_view e ms st) (sanitize_prog cfg fuel) (mp4_view_init e ms st data)) = mp4_sanitize cfg true ms inp fuel.
Proof. exact mp4_view_is_cursor. Qed.
Print Assumptions C11_mp4_view_is_model.

(* however the bottom reader splits the data into short reads *)
Theorem C11_read_exact_chunking_independent :
  forall (c : N) (f : bool) (ms : N) (st : stk) (sizes : list N) (data : bytes),
  1 <= c -> stk_ok st -> blen data <= I64MAX -> ms_ok (blen data) ms ->
  forall (A : Type) (p : Prog.prog A),
    fst (Prog.run (stack_reader c f ms (rechunk sizes st)) p (stack_init ms (rechunk sizes st) data)) =
    fst (Prog.run (stack_reader c f ms st) p (stack_init ms st data)).
Proof. exact chunking_independent. Qed.
Print Assumptions C11_read_exact_chunking_independent.

(* any two views of the same bytes, equal max_seek: the same result for every programme *)
Theorem C11_same_result :
  forall (c1 c2 : N) (f1 f2 : bool) (ms : N) (st1 st2 : stk) (data : bytes),
  1 <= c1 -> 1 <= c2 -> stk_ok st1 -> stk_ok st2 -> blen data <= I64MAX -> ms_ok (blen data) ms ->
  forall (A : Type) (p : Prog.prog A),
    fst (Prog.run (stack_reader c1 f1 ms st1) p (stack_init ms st1 data)) =
    fst (Prog.run (stack_reader c2 f2 ms st2) p (stack_init ms st2 data)).
Proof. exact same_result. Qed.
Print Assumptions C11_same_result.

(* the MP4 sanitizer: sync or async entry point, any two stacks *)
Theorem C11_same_result_mp4 :
  forall (cfg : config) (fuel : nat) (ms : N) (st1 st2 : stk) (e1 e2 : bool) (data : bytes),
  stk_ok st1 -> stk_ok st2 -> blen data <= I64MAX -> ms_ok (blen data) ms ->
  fst (Prog.run (mp4_view e1 ms st1) (sanitize_prog cfg fuel) (mp4_view_init e1 ms st1 data)) =
  fst (Prog.run (mp4_view e2 ms st2) (sanitize_prog cfg fuel) (mp4_view_init e2 ms st2 data)).
Proof. exact mp4_same_result. Qed.
Print Assumptions C11_same_result_mp4.

(* the WebP sanitizer (std BufReader(8) of its own), any two stacks, whatever the lossless validator *)
Theorem C11_same_result_webp :
  forall (lossless : N -> N -> bytes -> res unit) (allow_unknown : bool) (fuel : nat) (ms : N) (st1 st2 : stk) (data : bytes),
  stk_ok st1 -> stk_ok st2 -> blen data <= I64MAX -> ms_ok (blen data) ms ->
  fst (Prog.run (webp_view ms st1) (webp_prog lossless allow_unknown fuel) (webp_view_init ms st1 data)) =
  fst (Prog.run (webp_view ms st2) (webp_prog lossless allow_unknown fuel) (webp_view_init ms st2 data)).
Proof. exact webp_same_result. Qed.
Print Assumptions C11_same_result_webp.

Theorem C11_webp_view_is_model :
  forall (lossless : N -> N -> bytes -> res unit) (allow_unknown : bool) (fuel : nat) (ms : N) (st : stk) (data : bytes) (inp : input),
  stk_ok st -> blen data <= I64MAX -> ms_ok (blen data) ms -> inp_is inp data ->
  fst (Prog.run (webp_view ms st) (webp_prog lossless allow_unknown fuel) (webp_view_init ms st data)) =
  webp_sanitize lossless allow_unknown true ms inp fuel.
Proof. exact webp_view_is_cursor. Qed.
Print Assumptions C11_webp_view_is_model.

(* finding D11: across different max_seek (io::Cursor vs File) the results differ *)
Theorem C11_cursor_vs_file_refuted :
  exists (data : bytes) (cfg : config) (fuel : nat) (st : stk),
    stk_ok st /\ blen data <= I64MAX /\ ms_ok (blen data) U64MAXN /\ ms_ok (blen data) I64MAX /\
    fst (Prog.run (mp4_view true U64MAXN st) (sanitize_prog cfg fuel) (mp4_view_init true U64MAXN st data)) = EParse TruncatedBox /\
    fst (Prog.run (mp4_view true I64MAX st) (sanitize_prog cfg fuel) (mp4_view_init true I64MAX st data)) = EIo EInvalidInput.
Proof. exact cursor_vs_file_refuted. Qed.
Print Assumptions C11_cursor_vs_file_refuted.
