(* C18: the code built by CanonicalHuffmanTree::new does not depend on the order in which the caller lists the (symbol, length)
   pairs ("ties by symbol value", not by position).  The sort key is the whole element, so any two listings that are permutations
   of each other sort to the same list.  Statement and the short composing proof (lemmas of Webp/HuffmanProofsSort.v). *)
From Coq Require Import List NArith Bool Sorted Permutation.
From MS Require Import Base.Bytes Base.Outcome Webp.Huffman Webp.HuffmanProofsSort.
Open Scope N_scope.

Theorem C18_listing_order_irrelevant : forall l l' : list (N * N), Permutation l l' ->
  symbols l = symbols l' /\ new l = new l'.
Proof.
  intros l l' Hp.
  assert (E : sort_by_key l = sort_by_key l').
  { apply sorted_perm_unique; try apply sort_sorted.
    eapply Permutation_trans; [apply Permutation_sym, sort_perm|].
    eapply Permutation_trans; [exact Hp | apply sort_perm]. }
  assert (Es : symbols l = symbols l') by (unfold symbols; rewrite E; reflexivity).
  split; [exact Es | unfold new; rewrite Es; reflexivity].
Qed.
Print Assumptions C18_listing_order_irrelevant.
