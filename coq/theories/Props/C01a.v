(* C01 in the words of its title.  The caller writes the returned metadata (md, then pad zero bytes) followed by the media span
   of the input (Mp4/SpliceSpec.v: splice).  The chunk-offset tables of the returned moov are the input's, entry e replaced by
   new e; and for every entry e and every k with e + k inside the media span, position (new e) + k of the written file is inside
   it and holds the byte the input holds at e + k.  For every configuration, both Skip behaviours, every input up to 2^64-1
   bytes, every fuel.  Proof in Mp4/LoopProofsAddress.v. *)
From Coq Require Import List NArith ZArith Bool.
From Coq.Strings Require Import Byte.
From MS Require Import Base.Bytes Base.Outcome Base.Prog Mp4.Header Mp4.Box Mp4.San Mp4.Spec Mp4.ShiftSpec Mp4.SpliceSpec
  Mp4.LoopProofsAddress.
Import ListNotations.
Open Scope N_scope.

Theorem C01_same_media_byte :
  forall (cfg : config) (lenient : bool) (inp : input) (fuel : nat) (o : out) (md : bytes) (pad : N),
  ilen inp <= U64MAX -> (forall t, cumulative_mdat_box_size cfg = Some t -> t <= U32MAX) ->
  mp4_sanitize cfg lenient U64MAX' inp fuel = Ok o -> o_metadata o = Some (md, pad) ->
  exists bs m fp mp' psz ts,
    tiling (cumulative_mdat_box_size cfg) inp = Some bs /\ last_moov bs = Some m /\
    metadata_shape (md_input md pad) = Some (fp, mp', psz) /\
    co_tables (tb_payload inp m) = Some ts /\
    let off := s_off (o_data o) in
    let len := s_len (o_data o) in
    let J := splice md pad inp off len in
    let new := fun e : N => Z.to_N (Z.of_N e + (Z.of_N (blen md + pad) - Z.of_N off)) in
    co_tables mp' = Some (map (fun t : N * list N => (fst t, map new (snd t))) ts) /\
    forall t e k, In t ts -> In e (snd t) -> off <= e + k < off + len ->
      new e + k < ilen J /\ iget J (new e + k) = iget inp (e + k).
Proof. exact same_media_byte. Qed.
Print Assumptions C01_same_media_byte.

(* the same with the written file read by the specification itself (its tiling, its last moov, the tables of that moov's payload),
   together with the verdict of a second run on it (C02 b): the statement mentions the returned metadata only through the file *)
Theorem C01_spliced_file_addresses_same_bytes :
  forall (cfg : config) (lenient lenient2 : bool) (inp : input) (fuel fuel2 : nat) (o : out) (md : bytes) (pad : N),
  max_metadata_size cfg < 4294967296 -> ilen inp <= U64MAX ->
  (forall t, cumulative_mdat_box_size cfg = Some t -> t <= U32MAX) ->
  mp4_sanitize cfg lenient U64MAX' inp fuel = Ok o -> o_metadata o = Some (md, pad) ->
  let off := s_off (o_data o) in
  let len := s_len (o_data o) in
  let J := splice md pad inp off len in
  ilen J <= U64MAX -> (N.to_nat (ilen J / 8) < fuel2)%nat ->
  exists bs m ts bs2 m2,
    tiling (cumulative_mdat_box_size cfg) inp = Some bs /\ last_moov bs = Some m /\ co_tables (tb_payload inp m) = Some ts /\
    tiling (cumulative_mdat_box_size cfg) J = Some bs2 /\ last_moov bs2 = Some m2 /\
    let new := fun e : N => Z.to_N (Z.of_N e + (Z.of_N (blen md + pad) - Z.of_N off)) in
    co_tables (tb_payload J m2) = Some (map (fun t : N * list N => (fst t, map new (snd t))) ts) /\
    (forall t e k, In t ts -> In e (snd t) -> off <= e + k < off + len ->
       new e + k < ilen J /\ iget J (new e + k) = iget inp (e + k)) /\
    mp4_sanitize cfg lenient2 U64MAX' J fuel2 = Ok {| o_metadata := None; o_data := {| s_off := blen md + pad; s_len := len |} |}.
Proof. exact spliced_file_addresses_same_bytes. Qed.
Print Assumptions C01_spliced_file_addresses_same_bytes.
