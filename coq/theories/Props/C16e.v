(* C16 after a caller edit that changes a payload length ("serializing writes exactly encoded_len bytes" holds then too).
   Statements only; model Mp4/BoxEdit.v (Mp4Box::calculated_header: the parsed header while the payload length is the declared
   one, otherwise a fresh header in the shortest form; parents' payload lengths are sums of their children's encoded_len),
   proofs Mp4/BoxEditProofs.v. *)
From Coq Require Import List NArith Bool.
From MS Require Import Base.Bytes Base.Outcome Mp4.Header Mp4.Box Mp4.BoxLazy Mp4.BoxOps Mp4.BoxEdit Mp4.BoxEditProofs.
Open Scope N_scope.

(* EVERY tree with well-formed box types (whatever was edited, at whatever depth, however the header forms change on the way
   up): if it serialises (no u64 overflow, the `.expect`), the calculated encoded length is the number of bytes written *)
Theorem C16_edit_len_agrees : forall (n : node), node_wf n = true ->
  forall b : bytes, put_calc n = Ok b -> len_calc n = Ok (N.of_nat (length b)).
Proof. exact put_calc_len. Qed.
Print Assumptions C16_edit_len_agrees.

(* the no-edit case is the plain model of Mp4/Box.v: what was parsed and lazily forced serialises, with calculated headers, to
   the parsed bytes - so C16_lazy_roundtrip / C16_encoded_len_agrees are statements about this model too *)
Theorem C16_calc_is_plain : forall (fuel : nat) (buf : bytes) (ns ns' : list node),
  parse_boxes fuel buf = Ok ns -> Forall2 forces ns ns' ->
  puts_calc ns' = Ok buf /\ lens_calc ns' = Ok (N.of_nat (length buf)).
Proof. exact calc_is_plain. Qed.
Print Assumptions C16_calc_is_plain.

(* the `lazyedit` cases of the correspondence batch: MoovBox::parse, any accessor calls, the table of the i-th trak replaced by
   m entries *)
Theorem C16_edited_moov_len : forall (p : bytes) (kids : list node) (ops : list (nat * nat)) (i m : nat) (kids' : list node) (b : bytes),
  parse_moov p = Ok kids -> edit_trak i m (fst (run_ops ops 0 kids)) = Ok kids' ->
  puts_calc kids' = Ok b -> lens_calc kids' = Ok (N.of_nat (length b)).
Proof. exact edited_moov_len. Qed.
Print Assumptions C16_edited_moov_len.

(* the tree the sanitizer itself serialises (MoovBox::parse + the accessor chain of every trak, then the in-place rewrite of the table
   entries): every box keeps the size its parsed header declares, so the calculated header of every box IS the parsed one - the
   assumption under which the plain model of Mp4/Box.v (C01-C05) writes the parsed headers back is a theorem *)
Theorem C16_sanitizer_tree_keeps_headers : forall (p : bytes) (kids kids' : list node) (f g : N -> res N) (l : list unit),
  moov_check p = Ok kids -> each_trak kids (shift_table f g) = Ok (kids', l) ->
  puts_calc kids' = Ok (put_nodes kids') /\ lens_calc kids' = Ok (nodes_encoded_len kids') /\
  nodes_encoded_len kids' = N.of_nat (length p).
Proof. exact sanitizer_tree_keeps_headers. Qed.
Print Assumptions C16_sanitizer_tree_keeps_headers.
