(* C03 - MP4: the media span lies inside the input and is exactly the media run.
   Statements only; proofs in Mp4/LoopProofs.v (closed form of the loop) and Mp4/LoopProofsSpec.v.
   Both Skip behaviours of the reader (lenient = seek-style, strict) are covered by the quantified [lenient]. *)
From Coq Require Import List NArith ZArith Bool.
From Coq.Strings Require Import Byte.
From MS Require Import Base.Bytes Base.Outcome Base.Prog Mp4.Header Mp4.Box Mp4.San Mp4.Spec Mp4.LoopProofs Mp4.LoopProofsSpec.
Import ListNotations.
Open Scope N_scope.

(* an accepted input is tiled by complete top-level boxes; the returned span is the media run of that tiling,
   lies inside the input, and contains every mdat box *)
Theorem C03_span_is_media_run :
  forall (cfg : config) (lenient : bool) (inp : input) (fuel : nat) (o : out),
  ilen inp <= U64MAX ->
  (forall t, cumulative_mdat_box_size cfg = Some t -> t <= U32MAX) ->
  mp4_sanitize cfg lenient U64MAX' inp fuel = Ok o ->
  exists bs, tiling (cumulative_mdat_box_size cfg) inp = Some bs /\
    media_run bs = Some (s_off (o_data o), s_len (o_data o)) /\
    s_off (o_data o) + s_len (o_data o) <= ilen inp /\
    forallb (fun b => if is MDAT b then inside (s_off (o_data o), s_len (o_data o)) b else true) bs = true.
Proof. intros cfg lenient inp fuel o Hl Hc. exact (span_is_media_run inp lenient cfg Hl Hc fuel o). Qed.
Print Assumptions C03_span_is_media_run.

(* an input that is not a sequence of complete boxes (truncated header, size below the header length, a box
   reaching past the end) is never accepted, whichever way the reader skips *)
Theorem C03_truncated_rejected :
  forall (cfg : config) (lenient : bool) (inp : input) (fuel : nat),
  ilen inp <= U64MAX ->
  (forall t, cumulative_mdat_box_size cfg = Some t -> t <= U32MAX) ->
  tiling (cumulative_mdat_box_size cfg) inp = None ->
  is_ok (mp4_sanitize cfg lenient U64MAX' inp fuel) = false.
Proof. intros cfg lenient inp fuel Hl Hc. exact (truncated_rejected inp lenient cfg Hl Hc fuel). Qed.
Print Assumptions C03_truncated_rejected.

(* with a strict Skip the loop itself fails (the failing skip/read), before the end-of-loop check *)
Theorem C03_truncated_rejected_strict_in_loop :
  forall (cfg : config) (inp : input) (fuel : nat),
  ilen inp <= U64MAX ->
  (forall t, cumulative_mdat_box_size cfg = Some t -> t <= U32MAX) ->
  tiling (cumulative_mdat_box_size cfg) inp = None ->
  is_ok (fst (run (cursor inp false U64MAX') (loop fuel cfg st0) 0)) = false.
Proof. exact truncated_strict_in_loop. Qed.
Print Assumptions C03_truncated_rejected_strict_in_loop.

