(* C05 (and every MP4 property through it): the top-level dispatch of the model is the one the SOURCE has now.
   Gen/Mp4Dispatch.v is rewritten on every run from the arms of `match header.box_type() { .. }` in mp4san/src/lib.rs (names per arm,
   the `_ if ftyp.is_none()` guard arm, the catch-all, in source order).  [sanitize_prog_arms] picks the arm of each box by
   first-match over that regenerated list and runs the body of the arm with that index; the model programme [sanitize_prog] - the
   programme every MP4 theorem of this development is about - runs identically over every reader.  Proofs in
   Mp4/SanDispatchProofs.v. *)
From Coq Require Import List NArith Bool.
From Coq.Strings Require Import Byte.
From MS Require Import Base.Bytes Base.Outcome Base.Prog Mp4.Header Mp4.Box Mp4.San Gen.Mp4Dispatch Mp4.SanDispatch Mp4.SanDispatchProofs.
Import ListNotations.
Open Scope N_scope.

Theorem C05_dispatch_is_source : forall (cfg : config) (fuel : nat) (R : reader) (rs : rst R),
  run R (sanitize_prog cfg fuel) rs = run R (sanitize_prog_arms cfg fuel) rs.
Proof. exact sanitize_is_dispatch. Qed.
Print Assumptions C05_dispatch_is_source.

Theorem C05_step_dispatch_is_source : forall (cfg : config) (s : st) (R : reader) (rs : rst R),
  run R (step cfg s) rs = run R (step_arms cfg s) rs.
Proof. exact step_is_dispatch. Qed.
Print Assumptions C05_step_dispatch_is_source.

Theorem C05_dispatch_list : 
  DISPATCH_SRC = [ANames [t_free; t_skip]; ANames [t_ftyp]; AGuardNoFtyp; ANames [t_mdat]; ANames [t_moov];
                  ANames [t_meta; t_meco]; AAny].
Proof. exact dispatch_list_as_modelled. Qed.
Print Assumptions C05_dispatch_list.
