(* C05 (and every MP4 property through it): the top-level dispatch of the model is the one the SOURCE has now.
   Gen/Mp4Dispatch.v is rewritten on every run from the arms of `match header.box_type() { .. }` in mp4san/src/lib.rs (names per arm,
   the `_ if ftyp.is_none()` guard arm, the catch-all, in source order).  [sanitize_prog_arms] picks the arm of each box by
   first-match over that regenerated list and runs the body of the arm with that index; the model programme [sanitize_prog] - the
   programme every MP4 theorem of this development is about - runs identically over every reader.  Proofs in
   Mp4/SanDispatchProofs.v. *)
From Coq Require Import List NArith Bool.
From Coq.Strings Require Import Byte.
From MS Require Import Base.Bytes Base.Outcome Base.Prog Mp4.Header Mp4.Box Mp4.San Gen.Mp4Dispatch Mp4.SanDispatch Mp4.SanDispatchProofs.
Import ListNotations.
Open Scope N_scope.

Theorem C05_dispatch_is_source : forall (cfg : config) (fuel : nat) (R : reader) (rs : rst R),
  run R (sanitize_prog cfg fuel) rs = run R (sanitize_prog_arms cfg fuel) rs.
Proof. exact sanitize_is_dispatch. Qed.
Print Assumptions C05_dispatch_is_source.

Theorem C05_step_dispatch_is_source : forall (cfg : config) (s : st) (R : reader) (rs : rst R),
  run R (step cfg s) rs = run R (step_arms cfg s) rs.
Proof. exact step_is_dispatch. Qed.
Print Assumptions C05_step_dispatch_is_source.

Theorem C05_dispatch_list : 
  DISPATCH_SRC = [ANames [t_free; t_skip]; ANames [t_ftyp]; AGuardNoFtyp; ANames [t_mdat]; ANames [t_moov];
                  ANames [t_meta; t_meco]; AAny].
Proof. exact dispatch_list_as_modelled. Qed.
Print Assumptions C05_dispatch_list.

(* the typed boxes inside moov: the accessor chain of the model descends along the chain of child types the SOURCE's accessors ask
   for (Gen/Mp4BoxTypes.v, regenerated on every run), and the model's box-type constants are the source's #[box_type] strings *)
From MS Require Import Gen.Mp4BoxTypes Mp4.BoxTypesProofs.
Theorem C05_accessor_chain_is_source : forall (A : Type) (kids : list node) (g : node -> res (node * A)),
  trak_co kids g = chain_by ACCESSOR_CHAIN_SRC kids (fun sk => stbl_co sk g).
Proof. exact @trak_co_is_src. Qed.
Print Assumptions C05_accessor_chain_is_source.

Theorem C05_box_types_are_source :
  t_trak = TRAKS_ITEM_TYPE_SRC /\ [t_mdia; t_minf; t_stbl] = ACCESSOR_CHAIN_SRC /\
  t_stco = BOXTYPE_StcoBox_SRC /\ t_co64 = BOXTYPE_Co64Box_SRC /\ t_moov = BOXTYPE_MoovBox_SRC /\ t_ftyp = BOXTYPE_FtypBox_SRC.
Proof. exact box_types_are_src. Qed.
Print Assumptions C05_box_types_are_source.
