(* C15 - Skip/AsyncSkip adapters behave as a forward-only cursor over the same bytes.
   Statements only; proofs in Base/AdaptersProofs*.v.  Vocabulary: Base/Cursor.v (ideal cursor: within, accepts,
   advance, hist_ok), Base/AdaptersSpec.v (refines, seeker_refines, buf_abs, buf_inv, chunk_refines),
   Base/Adapters.v (the models). *)
From Coq Require Import List NArith ZArith Bool.
From MS Require Import Base.Bytes Base.Outcome Base.Cursor Base.Adapters Base.AdaptersSpec
     Base.AdaptersProofs Base.AdaptersProofsBuf Base.AdaptersProofsHist Base.AdaptersProofsVcur.
Import ListNotations.
Open Scope N_scope.

(* SeekSkipAdapter over any lenient seek-style cursor (relative seek / position + absolute seek; length by
   seeking to the end and back) refines the ideal cursor; stream_len does not move it *)
Theorem C15_seek_adapter_refines : forall (S : seeker) (abs : sst S -> cur) (Inv : sst S -> Prop) (max_seek : N),
  seeker_refines max_seek S abs Inv -> refines (seek_adapter S) abs Inv.
Proof. exact seek_adapter_refines_any. Qed.
Print Assumptions C15_seek_adapter_refines.

(* std::io::Cursor with mediasan's `Skip for Cursor` *)
Theorem C15_cursor_refines : forall max_seek : N,
  refines (cursor_reader max_seek) (fun c => c) (fun c => wf_cur c /\ clen c <= max_seek).
Proof. exact cursor_reader_refines. Qed.
Print Assumptions C15_cursor_refines.

(* a sparse virtual Read + Seek stream of up to 2^64-1 bytes is such a seek-style cursor: with C15_seek_adapter_refines
   this covers skips of more than i64::MAX bytes that stay within the stream *)
Theorem C15_vcursor_refines : forall max_seek : N,
  seeker_refines max_seek (vcursor_seeker max_seek) vabs (vinv max_seek).
Proof. exact vcursor_refines. Qed.
Print Assumptions C15_vcursor_refines.

(* std BufReader of any capacity >= 1 over ANY reader that refines the ideal cursor: buffering never skips,
   repeats or misreports bytes *)
Theorem C15_bufreader_refines : forall (cap : N) (R : reader) (abs : rst R -> cur) (Inv : rst R -> Prop),
  1 <= cap -> refines R abs Inv -> refines (std_buf cap R) (buf_abs R abs) (buf_inv R abs Inv).
Proof. exact std_buf_refines. Qed.
Print Assumptions C15_bufreader_refines.

Theorem C15_fut_bufreader_refines : forall (cap : N) (R : reader) (abs : rst R -> cur) (Inv : rst R -> Prop),
  1 <= cap -> refines R abs Inv -> refines (fut_buf cap R) (buf_abs R abs) (buf_inv R abs Inv).
Proof. exact fut_buf_refines. Qed.
Print Assumptions C15_fut_bufreader_refines.

(* &mut / Box / Pin forwarding, AsyncInputAdapter, futures' ReadExact view *)
Theorem C15_forwarding_refines : forall (R : reader) (abs : rst R -> cur) (Inv : rst R -> Prop),
  refines R abs Inv ->
  refines (fwd R) abs Inv /\ refines (async_input R) abs Inv /\ refines (fut_view R) abs Inv.
Proof. exact forwarding_refines. Qed.
Print Assumptions C15_forwarding_refines.

(* webpsan's ChunkDataReader: a cursor over the parent's bytes cut at the end of the chunk body *)
Theorem C15_chunk_data_reader_refines : forall (R : reader) (abs : rst R -> cur) (Inv : rst R -> Prop),
  refines R abs Inv -> chunk_refines R abs Inv.
Proof. exact chunk_data_refines. Qed.
Print Assumptions C15_chunk_data_reader_refines.

(* every history: as long as it stays within the stream every answer is an ideal answer, and the abstract
   cursor ends where the ideal cursor ends *)
Theorem C15_history : forall (R : reader) (abs : rst R -> cur) (Inv : rst R -> Prop), refines R abs Inv ->
  forall (ops : list op) (s : rst R), Inv s ->
    hist_ok ops (abs s) (fst (run_ops R ops s)) /\
    (hist_within ops (abs s) (fst (run_ops R ops s)) ->
       abs (snd (run_ops R ops s)) = hist_end ops (abs s) (fst (run_ops R ops s)) /\ Inv (snd (run_ops R ops s))).
Proof. exact history_refines. Qed.
Print Assumptions C15_history.

Theorem C15_stream_len_does_not_move : forall (R : reader) (abs : rst R -> cur) (Inv : rst R -> Prop), refines R abs Inv ->
  forall s : rst R, Inv s ->
    fst (rstep R OLen s) = Ok (VNum (clen (abs s))) /\ abs (snd (rstep R OLen s)) = abs s /\
    fst (rstep R OPos s) = Ok (VNum (cpos (abs s))) /\ abs (snd (rstep R OPos s)) = abs s.
Proof. exact queries_do_not_move. Qed.
Print Assumptions C15_stream_len_does_not_move.
