#!/bin/sh
# regenerate _CoqProject from the files present and (re)create the Makefile if the list changed
cd "$(dirname "$0")"
{ echo "-Q theories MS"; find theories -name '*.v' | LC_ALL=C sort; } > _CoqProject.new
if ! cmp -s _CoqProject.new _CoqProject || [ ! -f Makefile ]; then
  mv _CoqProject.new _CoqProject
  coq_makefile -f _CoqProject -o Makefile >/dev/null
else rm -f _CoqProject.new; fi
