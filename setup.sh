#!/bin/sh
# Build the whole framework from files on disk (offline): regenerate Gen/*.v from /repo, compile the Coq
# development (full .vo build), extract + build the OCaml driver, build the Rust harness against /repo.
set -e
cd "$(dirname "$0")"
export CARGO_NET_OFFLINE=true
mkdir -p build coq/theories/Gen evidence
python3 tools/gen_kernels.py /repo coq/theories/Gen/Kernels.v coq/theories/Gen/Lz77Kernel.v || echo "gen_kernels: broken tie (reported by check C20)"
python3 tools/gen_consts.py --shift-sites /repo coq/theories/Gen/Mp4ShiftSites.v || echo "gen_consts --shift-sites: broken tie (reported by check C01)"
python3 tools/gen_consts.py --box-types /repo coq/theories/Gen/Mp4BoxTypes.v || echo "gen_consts --box-types: broken tie (reported by check C05)"
python3 tools/gen_consts.py --webp-known /repo coq/theories/Gen/WebpKnown.v || echo "gen_consts --webp-known: broken tie (reported by check C14)"
python3 tools/gen_consts.py --dispatch /repo coq/theories/Gen/Mp4Dispatch.v || echo "gen_consts --dispatch: broken tie (reported by check C05)"
python3 tools/gen_consts.py /repo coq/theories/Gen/Consts.v coq/theories/Gen/WebpTables.v || echo "gen_consts: broken tie (reported by the checks)"
python3 -c "import sys; sys.path.insert(0,'lib'); import props.c17" || echo "c17 tie: broken (reported by check C17)"
sh coq/mk_project.sh
( cd coq && timeout 7000 make -j16 ) || echo "coq build incomplete (reported per property by the checks)"
python3 - <<'PY'
import sys, os
sys.path.insert(0, "lib")
import framework
import glob
for f in sorted(glob.glob("coq/extraction/Extract_*.v")):
    area = os.path.basename(f)[8:-2]
    r = framework.Run("setup", "quick", 0)
    print(area, "driver:", r.build_driver(area), "harness:", r.build_harness(area), r.broken)
PY
