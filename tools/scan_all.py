#!/usr/bin/env python3
"""Global scan of the whole Coq development (not only one property's closure): no Admitted / admit / Axiom /
Parameter / Conjecture / unguarded Variable|Hypothesis / kernel-check switches anywhere. Exit 1 if any."""
import os, sys
sys.path.insert(0, os.path.join(os.path.dirname(os.path.dirname(os.path.abspath(__file__))), "lib"))
import framework
r = framework.Run("ALL", "quick", 0)
ok = r.source_scan(None)
for o in r.obligations:
    print(("ok   " if o[1] else "FAIL ") + o[0], o[2])
sys.exit(0 if ok else 1)
