#!/usr/bin/env python3
"""Writes MANIFEST.json from lib/props/*.py (one source of truth for what is claimed)."""
import importlib, json, os, sys
V = os.path.dirname(os.path.dirname(os.path.abspath(__file__)))
sys.path.insert(0, os.path.join(V, "lib"))
props = [json.loads(l) for l in open(os.path.join(V, "properties.jsonl"))]
checks, na = [], []
ready = [l.strip() for l in open(os.path.join(V, "lib", "props", "READY")) if l.strip() and not l.startswith("#")]
for p in props:
    pid = p["id"]
    if pid not in ready:
        na.append({"property_id": pid, "reason": "not yet claimed: model, specification, correspondence check and oracle exist or are being built, but the proof-level check for this property is not finished; it is claimed only once ./check %s passes with its first theorem proved" % pid})
        continue
    try:
        m = importlib.import_module("props." + pid.lower())
    except ModuleNotFoundError:
        na.append({"property_id": pid, "reason": "not yet claimed: the Coq model/theorems and correspondence check for this property are still under construction (see DESIGN.md section 11); nothing is claimed until its first theorem is proved"})
        continue
    if not getattr(m, "THEOREMS", None):
        na.append({"property_id": pid, "reason": "not yet claimed: model, specification, correspondence check and oracle exist (./check %s runs) but no theorem about the model is proved yet; claimed at level proof only once its first theorem is" % pid})
        continue
    if getattr(m, "NOT_APPLICABLE", None):
        na.append({"property_id": pid, "reason": m.NOT_APPLICABLE})
        continue
    checks.append({
        "property_id": pid,
        "quick_cmd": "./check %s --tier quick" % pid,
        "thorough_cmd": "./check %s --tier thorough" % pid,
        "evidence_file": "/verif/evidence/%s.json" % pid,
        "replay_cmd_template": "./check %s --replay {path}" % pid,
        "engine": "coq-proof+correspondence",
        "level_claimed": {"category": "proof", "text": m.LEVEL_TEXT, "design_ref": m.DESIGN_REF},
        "level_note": m.LEVEL_NOTE,
        "technique": m.TECHNIQUE,
    })
man = {
    "version": 1,
    "setup_cmd": "./setup.sh",
    "hooks": {
        "guard": "signalapp_mp4san_verif",
        "enable": "RUSTFLAGS='--cfg signalapp_mp4san_verif' (set by lib/framework.py when it builds the harness crate against /repo)",
        "baseline_off_cmd": "cd /repo && cargo test --workspace --no-fail-fast --offline",
        "source_commits": [l.strip() for l in open(os.path.join(V, "hooks_commits.txt"))] if os.path.exists(os.path.join(V, "hooks_commits.txt")) else [],
        "add_only": True,
    },
    "engines": [{
        "name": "coq-proof+correspondence", "path": "/verif/check",
        "serves_properties": [c["property_id"] for c in checks],
        "kind_free_text": "Coq 8.16.1 theorems about executable Gallina models (constants and one kernel regenerated from the Rust source on every run); "
                          "models extracted to OCaml and compared with the real crates (Rust harness with path deps on /repo) on generated cases; "
                          "specification-side oracle evaluated on implementation outputs to find failing inputs",
    }],
    "checks": checks,
    "not_applicable": na,
    "notes": "See DESIGN.md. Every check regenerates Gen/*.v from /repo, runs make on the property's theorem file, pins each theorem statement with `Check`, audits Print Assumptions, rebuilds the Rust harness against /repo's working tree and diff-tests model vs implementation.",
}
json.dump(man, open(os.path.join(V, "MANIFEST.json"), "w"), indent=1)
print("claimed:", [c["property_id"] for c in checks], "not_applicable:", len(na))
