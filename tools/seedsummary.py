#!/usr/bin/env python3
"""one line per seeded change: confirmed? which checks report it and how"""
import json, os, sys
d = os.path.join(os.path.dirname(os.path.dirname(os.path.abspath(__file__))), "seeded")
for name in sorted(os.listdir(d)) if len(sys.argv) < 2 else sys.argv[1:]:
    p = os.path.join(d, name, "meta.json")
    if not os.path.exists(p):
        continue
    m = json.load(open(p))
    conf = (m.get("existing_suite_passes_with_change"), m.get("demo_without_change_passes"), m.get("demo_with_change_passes"))
    print(name, "suite/demo-clean/demo-changed=%s" % (conf,))
    for k, v in m.get("checked_properties", {}).items():
        print("    %s exit=%s %s | %s | %s" % (k, v.get("exit"), v.get("kind"), (v.get("first_failing_input") or "")[:70], (v.get("oracle") or "")[:110]))
