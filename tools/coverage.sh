#!/bin/sh
# Development aid (not a check, decides nothing): line coverage of /repo's three crates by the quick case sets of all 20 properties.
# Builds the harness binaries with nightly + -C instrument-coverage under build/cov, runs every ./check in that mode
# (evidence of such runs goes to build/evidence_other), merges the profiles and lists uncovered source regions.
# Usage: tools/coverage.sh [Cnn ...]      output: build/cov/report.txt, build/cov/uncovered.txt
cd "$(dirname "$0")/.." || exit 2
BIN=$(dirname "$(find /root/.rustup/toolchains/nightly-x86_64-unknown-linux-gnu -name llvm-cov | head -1)")
PROPS="$*"
[ -z "$PROPS" ] && PROPS="C01 C02 C03 C04 C05 C06 C07 C08 C09 C10 C11 C12 C13 C14 C15 C16 C17 C18 C19 C20"
rm -rf build/cov/prof
for p in $PROPS; do VERIF_COV=1 ./check $p 2>&1 | tail -1; done
"$BIN/llvm-profdata" merge -sparse build/cov/prof/*.profraw -o build/cov/all.profdata || exit 2
OBJS=""
for b in build/cov/target/release/h_*; do [ -x "$b" ] && [ ! -d "$b" ] && case "$b" in *.d) ;; *) OBJS="$OBJS -object $b";; esac; done
"$BIN/llvm-cov" report $OBJS -instr-profile=build/cov/all.profdata --ignore-filename-regex='(registry|rustc|harness/src)' > build/cov/report.txt 2>/dev/null
"$BIN/llvm-cov" show $OBJS -instr-profile=build/cov/all.profdata --ignore-filename-regex='(registry|rustc|harness/src)' \
   -show-line-counts-or-regions -format=text 2>/dev/null > build/cov/show.txt
python3 - <<'PY'
import re
cur=None; out=[]
for ln in open('build/cov/show.txt', errors='replace'):
    if ln.startswith('/') and ln.rstrip().endswith(':'):
        cur=ln.rstrip()[:-1]; continue
    m=re.match(r'\s*(\d+)\|\s*0\|(.*)', ln)
    if m and cur and '/tests' not in cur and '#[test]' not in m.group(2):
        out.append("%s:%s: %s" % (cur, m.group(1), m.group(2).rstrip()))
open('build/cov/uncovered.txt','w').write("\n".join(out)+"\n")
print(len(out), "uncovered lines -> build/cov/uncovered.txt")
PY
tail -5 build/cov/report.txt
# instrumented build scripts / proc macros leave default_*.profraw in the crate directories of the tree under test: remove them
find /repo -name 'default_*.profraw' -not -path '*/target/*' -delete 2>/dev/null
