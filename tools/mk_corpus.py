#!/usr/bin/env python3
"""Regenerate corpus/<id>/seed_witnesses.txt from seeded/*/meta.json: every failing input a check of this framework found
for a seeded change is kept as a regression case of the property whose check found it (run first, before generated cases)."""
import json, os, glob, collections
ROOT = os.path.dirname(os.path.dirname(os.path.abspath(__file__)))
by = collections.OrderedDict()
for d in sorted(glob.glob(os.path.join(ROOT, "seeded", "*"))):
    m = os.path.join(d, "meta.json")
    if not os.path.exists(m):
        continue
    meta = json.load(open(m))
    for prop, rec in sorted(meta.get("checked_properties", {}).items()):
        w = rec.get("first_failing_input")
        if w and rec.get("kind") == "failing-input":
            by.setdefault(prop, []).append((os.path.basename(d), w.strip()))
for prop, lst in by.items():
    os.makedirs(os.path.join(ROOT, "corpus", prop), exist_ok=True)
    p = os.path.join(ROOT, "corpus", prop, "seed_witnesses.txt")
    old = set()
    if os.path.exists(p):
        old = {l.strip() for l in open(p) if l.strip() and not l.startswith("#")}
    seen = set()
    with open(p, "w") as f:
        f.write("# failing inputs found by this check for seeded changes (seeded/<id>/): kept as regression cases\n")
        for name, w in lst:
            if w in seen:
                continue
            seen.add(w)
            f.write("# %s\n%s\n" % (name, w))
        for w in sorted(old - seen):
            f.write("# (earlier)\n%s\n" % w)
    print(prop, len(seen), "+", len(old - seen))
