#!/usr/bin/env python3
"""Confirm a seeded change and run checks against it.
usage: seedcheck.py <seed worktree> <n> <out name> <property to check> [more properties...]
Steps (all in the scratch worktree, never in /repo): apply out/<n>/patch.diff; existing test suite must pass;
the demonstration must fail with the change and pass without; then ./check <prop> --repo <worktree> for each
property; results are stored in /verif/seeded/<out name>/ (patch.diff, demo, meta.json)."""
import json, os, re, shutil, subprocess, sys, time

wt, n, name = sys.argv[1], sys.argv[2], sys.argv[3]
props = sys.argv[4:]
out = os.path.join(wt, "out", n)
env = dict(os.environ, CARGO_TARGET_DIR=os.path.join(wt, "target"), CARGO_NET_OFFLINE="true")


def sh(cmd, cwd=wt, timeout=3000):
    p = subprocess.run(cmd, shell=True, cwd=cwd, capture_output=True, text=True, env=env, timeout=timeout)
    return p.returncode, p.stdout + p.stderr


def crate_of_patch():
    txt = open(os.path.join(out, "patch.diff")).read()
    m = re.search(r"^\+\+\+ b/([^/]+)/", txt, re.M)
    return {"common": "common"}.get(m.group(1), m.group(1)) if m else "mp4san"


def demo_setup():
    """install the demonstration as an integration test; returns (crate dir, test name) or None"""
    demo = os.path.join(out, "demo.rs")
    notes = open(os.path.join(out, "notes.md")).read() if os.path.exists(os.path.join(out, "notes.md")) else ""
    if not os.path.exists(demo):
        return None
    m = re.search(r"(mp4san|webpsan|common)/tests/([A-Za-z0-9_]+)\.rs", notes)
    crate = m.group(1) if m else crate_of_patch()
    tname = "seed_demo"
    os.makedirs(os.path.join(wt, crate, "tests"), exist_ok=True)
    shutil.copy(demo, os.path.join(wt, crate, "tests", tname + ".rs"))
    pkg = {"common": "mediasan-common"}.get(crate, crate)
    return crate, tname, pkg


def run_demo(info):
    crate, tname, pkg = info
    rc, o = sh("cargo test -p %s --offline --test %s 2>&1 | tail -15" % (pkg, tname))
    ok = "test result: ok" in o and "FAILED" not in o and not re.search(r"^error(\[|:)", o, re.M)
    return ok, o[-600:]


meta = {"seed": name, "worktree": wt, "n": n, "at": time.strftime("%Y-%m-%d %H:%M:%S"), "checked_properties": {}}
sh("git checkout -- . ")
rc, o = sh("git apply --check out/%s/patch.diff" % n)
if rc != 0:
    print("patch does not apply:", o)
    sys.exit(2)
info = demo_setup()
# demo without the change
if info:
    ok0, o0 = run_demo(info)
    meta["demo_without_change_passes"] = ok0
sh("git apply out/%s/patch.diff" % n)
rc, o = sh("cargo test --workspace --offline 2>&1 | grep -E '^test result|FAILED|^error' | sort | uniq -c")
# our temporary demo test is part of the workspace run: exclude its failure from the suite verdict
suite_lines = [l for l in o.split("\n") if l.strip()]
meta["test_suite_with_change"] = suite_lines
if info:
    ok1, o1 = run_demo(info)
    meta["demo_with_change_passes"] = ok1
    meta["demo_output_with_change"] = o1[-300:]
    os.remove(os.path.join(wt, info[0], "tests", info[1] + ".rs"))
# suite again without the demo file
rc, o = sh("cargo test --workspace --offline 2>&1 | grep -E '^test result: FAILED|^error' | head -5")
meta["existing_suite_passes_with_change"] = (o.strip() == "")
for p in props:
    t = time.time()
    # the checks run from the copy of /verif this script lives in (a scratch copy keeps the Coq build of /verif undisturbed);
    # the record always goes to /verif/seeded
    vroot = os.path.dirname(os.path.dirname(os.path.abspath(__file__)))
    pr = subprocess.run(["./check", p, "--repo", wt], cwd=vroot, capture_output=True, text=True, timeout=3000)
    lines = [l for l in pr.stdout.split("\n") if l.startswith(("VIOLATION", "KNOWN"))]
    rep = None
    m = re.search(r"replay=(\S+)", pr.stdout)
    if m and os.path.exists(m.group(1)):
        rep = json.load(open(m.group(1)))
    meta["checked_properties"][p] = {
        "exit": pr.returncode, "lines": [l[:300] for l in lines], "wall_s": round(time.time() - t, 1),
        "kind": (rep or {}).get("kind"),
        "first_failing_input": ((rep or {}).get("cases") or [None])[0],
        "oracle": ((rep or {}).get("oracle") or [None])[0],
        "broken": [(b[0], b[1]) for b in (rep or {}).get("broken", [])] or [(b["kind"], b["name"]) for b in (rep or {}).get("no_longer_checks", [])],
    }
sh("git checkout -- . ")
dst = os.path.join("/verif/seeded", name)
os.makedirs(dst, exist_ok=True)
for f in os.listdir(out):
    s = os.path.join(out, f)
    if os.path.isfile(s) and os.path.getsize(s) < 2_000_000:
        shutil.copy(s, os.path.join(dst, f))
    elif os.path.isdir(s) and f != "target":
        shutil.copytree(s, os.path.join(dst, f), dirs_exist_ok=True, ignore=shutil.ignore_patterns("target"))
json.dump(meta, open(os.path.join(dst, "meta.json"), "w"), indent=1)
print(json.dumps(meta, indent=1)[:3000])
