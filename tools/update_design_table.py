#!/usr/bin/env python3
"""Replace the table of DESIGN.md section 0.0 by the current output of tools/status_table.py."""
import os, subprocess, sys
V = os.path.dirname(os.path.dirname(os.path.abspath(__file__)))
tab = subprocess.run([sys.executable, os.path.join(V, "tools", "status_table.py")], capture_output=True, text=True).stdout.strip().split("\n")
tab = [l for l in tab if l.startswith("|")]
p = os.path.join(V, "DESIGN.md")
lines = open(p).read().split("\n")
i = next(k for k, l in enumerate(lines) if l.startswith("| id | theorems pinned"))
j = i
while j < len(lines) and lines[j].startswith("|"):
    j += 1
lines[i:j] = tab
open(p, "w").write("\n".join(lines))
print("table rows:", len(tab) - 2)
