#!/usr/bin/env python3
"""Print the status-at-a-glance table of DESIGN.md section 0.0 from evidence/*.json (the last runs against /repo), seeded/*/meta.json and
known_findings.txt: per property the number of pinned theorems re-checked, the cases of the last quick run, the seeded changes the
property's check was run against and how it reported them."""
import json, glob, os, collections
V = os.path.dirname(os.path.dirname(os.path.abspath(__file__)))
props = [json.loads(l) for l in open(os.path.join(V, "properties.jsonl"))]
rep = collections.defaultdict(lambda: [0, 0, 0])
for m in glob.glob(os.path.join(V, "seeded", "*", "meta.json")):
    d = json.load(open(m))
    for p, r in d.get("checked_properties", {}).items():
        rep[p][0] += 1
        if r.get("exit") == 1:
            rep[p][1 if r.get("kind") == "failing-input" else 2] += 1
known = collections.defaultdict(list)
for l in open(os.path.join(V, "known_findings.txt")):
    if l.startswith("known:"):
        pid = l.split("property=")[1].split()[0]
        known[pid].append(l.split("id=")[1].split()[0])
print("| id | theorems pinned and re-checked per run | cases of the last quick run | seeded changes the check was run against: reported with a failing input / reported without one / quiet | known findings |")
print("|----|----|----|----|----|")
for p in props:
    pid = p["id"]
    e = json.load(open(os.path.join(V, "evidence", pid + ".json")))
    obl = e["coverage"].get("obligation_list", [])
    nth = sum(1 for o in obl if o["what"].startswith("theorem "))
    cases = 0
    for o in obl:
        if "correspondence" in o["what"] and " on " in o["what"]:
            try:
                cases = int(o["what"].split(" on ")[1].split()[0])
            except ValueError:
                pass
    r = rep[pid]
    print("| %s | %d | %d | %d: %d / %d / %d | %s |" % (pid, nth, cases, r[0], r[1], r[2], r[0] - r[1] - r[2], ", ".join(known[pid]) or "-"))
