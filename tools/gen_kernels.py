#!/usr/bin/env python3
"""Pattern-locked translator: body of `impl_checked_add_signed!` in
common/src/util.rs  ->  Gallina definition `checked_add_signed (w:Z) (self rhs:Z) : option Z`.

Subset translated (anything else => exit 3, message on stderr; the check then treats the
tie as broken and falls back to correspondence + search):

  stmt  ::= 'let' '(' id ',' id ')' '=' expr ';'        -- tuple let
          | 'let' id '=' expr ';'
  tail  ::= 'if' expr '{' tail '}' 'else' '{' tail '}'  | 'None' | 'Some' '(' expr ')' | expr
  expr  ::= binary operators  ||  &&  == != < <= > >=  ^  |  &  + -  (Rust precedences)
          | unary ! -
          | postfix  .overflowing_add(e) .wrapping_add(e) .checked_add(e) .overflowing_sub(e)
                     .wrapping_sub(e) .is_some() .is_none()    and   e 'as' ('Self'|'Self::Rhs')
          | id | integer | '(' expr ')' | 'true' | 'false'

Typing is tracked (U = unsigned w-bit, S = signed w-bit, B = bool, P = pair U*B, O = option U)
so that `as Self` on a signed value becomes `mod 2^w`, `^` on bools becomes xorb, etc.
"""
import re, sys

class Untranslatable(Exception):
    pass

TOK = re.compile(r"\s*(?:(\d+)|([A-Za-z_][A-Za-z_0-9]*(?:::[A-Za-z_][A-Za-z_0-9]*)*)|(\|\||&&|==|!=|<=|>=|[-+^|&<>!().,;{}=]))")

def tokenize(s):
    pos, out = 0, []
    s = re.sub(r"//[^\n]*", "", s)
    while pos < len(s):
        if s[pos:].strip() == "":
            break
        m = TOK.match(s, pos)
        if not m:
            raise Untranslatable("cannot tokenize at: " + s[pos:pos + 30])
        pos = m.end()
        if m.group(1):
            out.append(("int", m.group(1)))
        elif m.group(2):
            out.append(("id", m.group(2)))
        else:
            out.append(("op", m.group(3)))
    return out

class P:
    def __init__(self, toks, env):
        self.t, self.i, self.env = toks, 0, dict(env)

    def peek(self):
        return self.t[self.i] if self.i < len(self.t) else ("eof", "")

    def eat(self, kind=None, val=None):
        k, v = self.peek()
        if (kind and k != kind) or (val is not None and v != val):
            raise Untranslatable("expected %s %s, got %s %s" % (kind, val, k, v))
        self.i += 1
        return v

    # ---- statements
    def body(self):
        lets = []
        while self.peek() == ("id", "let"):
            self.eat()
            if self.peek() == ("op", "("):
                self.eat()
                a = self.eat("id"); self.eat("op", ","); b = self.eat("id"); self.eat("op", ")")
                self.eat("op", "=")
                e, ty = self.expr(0)
                self.eat("op", ";")
                if ty != "P":
                    raise Untranslatable("tuple let of non-pair")
                self.env[a] = "U"; self.env[b] = "B"
                lets.append("let '(%s, %s) := %s in" % (a, b, e))
            else:
                a = self.eat("id"); self.eat("op", "=")
                e, ty = self.expr(0)
                self.eat("op", ";")
                self.env[a] = ty
                lets.append("let %s := %s in" % (a, e))
        t = self.tail()
        if self.peek()[0] != "eof":
            raise Untranslatable("trailing tokens after tail expression: %r" % (self.peek(),))
        return "\n  ".join(lets + [t])

    def tail(self):
        k, v = self.peek()
        if (k, v) == ("id", "if"):
            self.eat()
            c, ty = self.expr(0)
            if ty != "B":
                raise Untranslatable("if condition is not bool")
            self.eat("op", "{"); a = self.tail(); self.eat("op", "}")
            self.eat("id", "else")
            self.eat("op", "{"); b = self.tail(); self.eat("op", "}")
            return "(if %s then %s else %s)" % (c, a, b)
        if (k, v) == ("id", "None"):
            self.eat()
            return "None"
        if (k, v) == ("id", "Some"):
            self.eat(); self.eat("op", "(")
            e, ty = self.expr(0)
            self.eat("op", ")")
            if ty != "U":
                raise Untranslatable("Some(..) of a non-unsigned value")
            return "(Some %s)" % e
        e, ty = self.expr(0)
        if ty != "O":
            raise Untranslatable("tail expression is not an Option")
        return e

    # ---- expressions (precedence climbing, Rust precedences)
    BIN = {"||": 1, "&&": 2, "==": 3, "!=": 3, "<": 3, "<=": 3, ">": 3, ">=": 3,
           "|": 4, "^": 5, "&": 6, "+": 7, "-": 7}

    def expr(self, minp):
        lhs, lt = self.unary()
        while True:
            k, v = self.peek()
            if k == "id" and v == "as":
                self.eat()
                target = self.eat("id")
                lhs, lt = self.cast(lhs, lt, target)
                continue
            if k != "op" or v not in self.BIN or self.BIN[v] < minp:
                return lhs, lt
            self.eat()
            rhs, rt = self.expr(self.BIN[v] + 1)
            lhs, lt = self.binop(v, lhs, lt, rhs, rt)

    def cast(self, e, ty, target):
        if target == "Self":
            if ty in ("S", "U", "I"):
                return "((%s) mod 2^w)" % e, "U"
        if target in ("Self::Rhs",):
            if ty in ("S", "I"):
                return e, "S"
            if ty == "U":
                return "(sgn w (%s))" % e, "S"
        raise Untranslatable("unsupported cast of %s to %s" % (ty, target))

    def binop(self, op, a, at, b, bt):
        num = ("U", "S", "I")
        if op in ("||", "&&"):
            if at == bt == "B":
                return "(%s %s %s)" % (a, op, b), "B"
        elif op in ("^", "|", "&"):
            if at == bt == "B":
                f = {"^": "xorb", "|": "orb", "&": "andb"}[op]
                return "(%s %s %s)" % (f, a, b), "B"
        elif op in ("==", "!="):
            if at == bt == "B":
                e = "(Bool.eqb %s %s)" % (a, b)
                return (e if op == "==" else "(negb %s)" % e), "B"
            if at in num and bt in num:
                e = "(%s =? %s)" % (a, b)
                return (e if op == "==" else "(negb %s)" % e), "B"
        elif op in ("<", "<=", ">", ">="):
            if at in num and bt in num and (at == bt or "I" in (at, bt)):
                f = {"<": "<?", "<=": "<=?", ">": ">?", ">=": ">=?"}[op]
                return "(%s %s %s)" % (a, f, b), "B"
        raise Untranslatable("unsupported operator %s on %s,%s" % (op, at, bt))

    def unary(self):
        k, v = self.peek()
        if (k, v) == ("op", "!"):
            self.eat()
            e, ty = self.unary()
            if ty != "B":
                raise Untranslatable("! on non-bool")
            return "(negb %s)" % e, "B"
        return self.postfix()

    def postfix(self):
        e, ty = self.atom()
        while self.peek() == ("op", "."):
            self.eat()
            m = self.eat("id")
            self.eat("op", "(")
            if m in ("is_some", "is_none"):
                self.eat("op", ")")
                if ty != "O":
                    raise Untranslatable(m + " on non-option")
                e = "(match %s with Some _ => %s | None => %s end)" % (
                    e, "true" if m == "is_some" else "false", "false" if m == "is_some" else "true")
                ty = "B"
                continue
            arg, aty = self.expr(0)
            self.eat("op", ")")
            if ty != "U" or aty != "U":
                raise Untranslatable("method %s on %s with %s" % (m, ty, aty))
            if m == "overflowing_add":
                e, ty = "(((%s + %s) mod 2^w), (2^w <=? %s + %s))" % (e, arg, e, arg), "P"
            elif m == "wrapping_add":
                e, ty = "((%s + %s) mod 2^w)" % (e, arg), "U"
            elif m == "checked_add":
                e, ty = "(if (%s + %s <? 2^w) then Some (%s + %s) else None)" % (e, arg, e, arg), "O"
            elif m == "overflowing_sub":
                e, ty = "(((%s - %s) mod 2^w), (%s <? %s))" % (e, arg, e, arg), "P"
            elif m == "wrapping_sub":
                e, ty = "((%s - %s) mod 2^w)" % (e, arg), "U"
            else:
                raise Untranslatable("unknown method " + m)
        return e, ty

    def atom(self):
        k, v = self.peek()
        if k == "int":
            self.eat()
            return v, "I"
        if k == "id":
            self.eat()
            if v in ("true", "false"):
                return v, "B"
            if v in self.env:
                return v, self.env[v]
            raise Untranslatable("unknown identifier " + v)
        if (k, v) == ("op", "("):
            self.eat()
            e, ty = self.expr(0)
            self.eat("op", ")")
            return "(%s)" % e, ty
        raise Untranslatable("unexpected token %s %s" % (k, v))


def extract_body(src):
    m = re.search(r"macro_rules!\s*impl_checked_add_signed\s*\{", src)
    if not m:
        raise Untranslatable("macro impl_checked_add_signed not found")
    m2 = re.search(r"fn\s+checked_add_signed\s*\(\s*self\s*,\s*rhs\s*:\s*Self::Rhs\s*\)\s*->\s*Option<Self>\s*\{", src[m.end():])
    if not m2:
        raise Untranslatable("fn checked_add_signed(self, rhs: Self::Rhs) -> Option<Self> not found in the macro")
    start = m.end() + m2.end()
    depth, i = 1, start
    while depth:
        c = src[i]
        depth += (c == "{") - (c == "}")
        i += 1
    return src[start:i - 1]


def instances(src):
    return re.findall(r"impl_checked_add_signed!\(\s*(u\w+)\s*,\s*(i\w+)\s*\)", src)


def translate(src):
    body = extract_body(src)
    p = P(tokenize(body.replace("self", "self_")), {"self_": "U", "rhs": "S"})
    g = p.body()
    inst = instances(src)
    return """(* GENERATED by tools/gen_kernels.py from common/src/util.rs -- do not edit *)
From Coq Require Import ZArith Bool.
Open Scope Z_scope.
(* two's-complement reading of a w-bit pattern *)
Definition sgn (w x : Z) : Z := if x <? 2^(w-1) then x else x - 2^w.
(* body of impl_checked_add_signed!: self_ in [0,2^w), rhs in [-2^(w-1),2^(w-1)) *)
Definition checked_add_signed (w self_ rhs : Z) : option Z :=
  %s.
(* instances declared in the source: %s *)
Definition instances : list (Z) := (%s)%%list.
""" % (g, ", ".join("%s/%s" % i for i in inst),
       " :: ".join([{"u8": "8", "u16": "16", "u32": "32", "u64": "64", "u128": "128", "usize": "64"}[a] for a, _ in inst] + ["nil"]))


# ---------------------------------------------------------------------------------------------------------------
# second kernel: BitBufReader::buf_read_lz77 (webpsan/src/parse/bitstream.rs) -> Gen/Lz77Kernel.v
# pattern-locked: match prefix_code { 0..=A => Ok(MIN.saturating_add(prefix_code.into())),
#                                     B..=LZ77_MAX_SYMBOL => { let extra_bits = E1; let offset = E2; Ok(MIN.saturating_add(offset + self.buf_read::<u32>(extra_bits)?)) }
#                                     _ => bail }
# E1, E2: integers, prefix_code, extra_bits, u32::from(x), ( ), + - & << >>  (Rust precedences: + - bind tighter than << >>, which bind tighter than &)
class LzExpr:
    TOK = re.compile(r"\s*(?:(\d+)|(u32::from|prefix_code|extra_bits)|(<<|>>|[-+&()]))")

    def __init__(self, text):
        self.t, pos = [], 0
        while text[pos:].strip():
            m = self.TOK.match(text, pos)
            if not m:
                raise Untranslatable("lz77 expression: cannot tokenize " + text[pos:pos + 20])
            pos = m.end()
            self.t.append(m.group(1) or m.group(2) or m.group(3))
        self.i = 0

    def peek(self):
        return self.t[self.i] if self.i < len(self.t) else None

    def eat(self, v=None):
        x = self.peek()
        if x is None or (v is not None and x != v):
            raise Untranslatable("lz77 expression: expected %s got %s" % (v, x))
        self.i += 1
        return x

    def band(self):
        a = self.shift()
        while self.peek() == "&":
            self.eat(); a = "(N.land %s %s)" % (a, self.shift())
        return a

    def shift(self):
        a = self.add()
        while self.peek() in ("<<", ">>"):
            op = self.eat(); b = self.add()
            a = "(N.shift%s %s %s)" % ("l" if op == "<<" else "r", a, b)
        return a

    def add(self):
        a = self.atom()
        while self.peek() in ("+", "-"):
            op = self.eat(); a = "(%s %s %s)" % (a, op, self.atom())
        return a

    def atom(self):
        x = self.eat()
        if x == "(":
            a = self.band(); self.eat(")"); return a
        if x == "u32::from":
            self.eat("("); a = self.band(); self.eat(")"); return a
        if x in ("prefix_code", "extra_bits"):
            return {"prefix_code": "c", "extra_bits": "(lz77_extra_src c)"}[x]
        if x.isdigit():
            return x
        raise Untranslatable("lz77 expression: unexpected " + x)

    def top(self):
        a = self.band()
        if self.peek() is not None:
            raise Untranslatable("lz77 expression: trailing " + str(self.peek()))
        return a


def translate_lz77(src):
    m = re.search(r"pub fn buf_read_lz77\(&mut self, prefix_code: u16\) -> Result<NonZeroU32, Error> \{\s*match prefix_code \{\s*"
                  r"0\.\.=(\d+) => Ok\(NonZeroU32::MIN\.saturating_add\(prefix_code\.into\(\)\)\),\s*"
                  r"(\d+)\.\.=LZ77_MAX_SYMBOL => \{\s*let extra_bits = ([^;]+);\s*let offset = ([^;]+);\s*"
                  r"Ok\(NonZeroU32::MIN\.saturating_add\(offset \+ self\.buf_read::<u32>\(extra_bits\)\?\)\)\s*\}\s*"
                  r"_ => bail_attach!\(ParseError::InvalidInput, InvalidLz77PrefixCode\(prefix_code\)\),\s*\}\s*\}", src)
    if not m:
        raise Untranslatable("buf_read_lz77 does not have the expected shape")
    lo_last, hi_first = int(m.group(1)), int(m.group(2))
    if hi_first != lo_last + 1:
        raise Untranslatable("buf_read_lz77: the two ranges are not adjacent")
    mx = re.search(r"const LZ77_MAX_SYMBOL: u16 = (\d+);", src)
    if not mx:
        raise Untranslatable("LZ77_MAX_SYMBOL")
    e1 = LzExpr(m.group(3)).top()
    e2 = LzExpr(m.group(4)).top()
    return """(* GENERATED by tools/gen_kernels.py from webpsan/src/parse/bitstream.rs (BitBufReader::buf_read_lz77) -- do not edit *)
From Coq Require Import NArith.
Open Scope N_scope.
(* match prefix_code { 0..=%d => 1 + prefix_code, %d..=%s => { extra_bits; offset; 1 + offset + read(extra_bits) }, _ => InvalidInput } *)
Definition lz77_direct_last_src : N := %d.
Definition lz77_max_symbol_src : N := %s.
Definition lz77_extra_src (c : N) : N := %s.
Definition lz77_offset_src (c : N) : N := %s.
""" % (lo_last, hi_first, mx.group(1), lo_last, mx.group(1), e1, e2)


def write_if_changed(out, txt):
    try:
        old = open(out).read()
    except OSError:
        old = None
    if old != txt:
        open(out, "w").write(txt)


if __name__ == "__main__":
    repo = sys.argv[1] if len(sys.argv) > 1 else "/repo"
    out = sys.argv[2]
    if len(sys.argv) > 3:
        try:
            write_if_changed(sys.argv[3], translate_lz77(open(repo + "/webpsan/src/parse/bitstream.rs").read()))
        except (Untranslatable, IndexError, KeyError) as e:
            sys.stderr.write("gen_kernels: untranslatable (lz77): %s\n" % e)
            sys.exit(3)
    try:
        txt = translate(open(repo + "/common/src/util.rs").read())
    except (Untranslatable, IndexError, KeyError) as e:
        sys.stderr.write("gen_kernels: untranslatable: %s\n" % e)
        sys.exit(3)
    try:
        old = open(out).read()
    except OSError:
        old = None
    if old != txt:
        open(out, "w").write(txt)
