#!/usr/bin/env python3
"""Mutation sweep (development aid; decides nothing): small mechanical edits of /repo's library sources, each applied to a
scratch worktree (never to /repo), kept only if it compiles and the existing test suite still passes, then given to the quick
checks of the properties anchored in the edited file.  A mutant no check reports is either equivalent (behaviour unchanged) or
a gap in a generator / model; survivors are listed for triage.

usage: mutsweep.py <scratch worktree> <out.jsonl> [--files f1,f2,..] [--max N] [--seed S] [--only-kind k1,k2]
The checks are run from the copy of /verif this script lives in (use a scratch copy so that /verif's Coq build is undisturbed).
"""
import json, os, random, re, subprocess, sys, time

VROOT = os.path.dirname(os.path.dirname(os.path.abspath(__file__)))
wt, outp = sys.argv[1], sys.argv[2]
args = sys.argv[3:]


def opt(name, default=None):
    return args[args.index(name) + 1] if name in args else default


FILES = {
    "webpsan/src/parse/lossless.rs": ["C07", "C08", "C19", "C09", "C10", "C13"],
    "webpsan/src/parse/bitstream.rs": ["C18", "C19", "C07", "C08", "C13"],
    "webpsan/src/reader.rs": ["C06", "C15", "C13", "C14"],
    "webpsan/src/lib.rs": ["C06", "C14", "C08", "C13"],
    "webpsan/src/parse/vp8x.rs": ["C17", "C06"],
    "webpsan/src/parse/anmf.rs": ["C17", "C06"],
    "webpsan/src/parse/alph.rs": ["C17", "C06", "C08"],
    "webpsan/src/parse/vp8l.rs": ["C06", "C07", "C08"],
    "webpsan/src/parse/integers.rs": ["C17", "C06"],
    "webpsan/src/parse/header.rs": ["C17", "C06"],
    "mp4san/src/lib.rs": ["C05", "C01", "C03", "C02", "C14", "C10", "C13"],
    "mp4san/src/parse/mp4box.rs": ["C05", "C04", "C16", "C10", "C13"],
    "mp4san/src/parse/header.rs": ["C16", "C05", "C04", "C10"],
    "mp4san/src/parse/array.rs": ["C05", "C04", "C09"],
    "mp4san/src/parse/stbl.rs": ["C05"],
    "mp4san/src/parse/moov.rs": ["C05"],
    "mp4san/src/parse/trak.rs": ["C05"],
    "mp4san/src/parse/integers.rs": ["C16", "C05", "C01"],
    "common/src/skip.rs": ["C15", "C11"],
    "common/src/async_skip.rs": ["C15", "C12", "C11"],
    "common/src/sync.rs": ["C11", "C13", "C15"],
    "common/src/util.rs": ["C20", "C13"],
}
if opt("--files"):
    FILES = {f: FILES[f] for f in opt("--files").split(",")}
MAXN = int(opt("--max", "40"))
rng = random.Random(int(opt("--seed", "1")))
ONLY = set(opt("--only-kind").split(",")) if opt("--only-kind") else None

REL = [(" <= ", " < "), (" < ", " <= "), (" >= ", " > "), (" > ", " >= "), (" == ", " != "), (" != ", " == ")]
CALLS = [("checked_add(", "wrapping_add("), ("checked_sub(", "wrapping_sub("), ("checked_mul(", "wrapping_mul("),
         ("saturating_sub(", "wrapping_sub("), (".min(", ".max("), (".max(", ".min("), ("chunks_exact", "chunks")]
CASTS = [(" as u64", " as u32"), (" as u32", " as u16"), (" as usize", " as u16"), (" as u16", " as u8"), ("u64::from(", "u64::from(1 + "),
         ("u32::from(", "u32::from(1 + "), ("map_eof(", "map_err("), (".is_empty()", ".is_empty() && false"), ("has_remaining()", "has_remaining() && true == false")]
ARITH = [(" + 1", " + 2"), (" - 1", " - 2"), (" + 1", ""), (" - 1", ""), (" + ", " - "), (" << ", " >> "), (" >> ", " << "),
         (" && ", " || "), (" || ", " && ")]


def candidates(path):
    """(kind, line index, old, new) for one file; the test module and comments are left alone"""
    src = open(os.path.join(wt, path)).read().split("\n")
    end = len(src)
    for i, l in enumerate(src):
        if re.match(r"\s*#\[cfg\(test\)\]", l) or re.match(r"\s*mod test", l):
            end = i
            break
    out = []
    for i, l in enumerate(src[:end]):
        code = l.split("//")[0]
        st = code.strip()
        if not st or st.startswith(("#", "use ", "pub use", "///", "//!", "impl", "pub trait", "trait", "where", "pub struct", "struct",
                                    "pub enum", "enum", "type ", "pub type")):
            continue
        if "fn " in code and "->" in code:
            continue
        if "cfg(" in code or "verif" in code:
            continue
        for kind, table in (("rel", REL), ("call", CALLS), ("arith", ARITH), ("cast", CASTS)):
            for a, b in table:
                for m in re.finditer(re.escape(a), code):
                    # generics / arrows / lifetimes
                    if a.strip() in ("<", ">", "<=", ">=") and re.search(r"(Result|Option|Vec|Box|impl|dyn|PhantomData|::)\s*$", code[:m.start()]):
                        continue
                    if a == " + " and re.search(r"[A-Z]\w*(<[^>]*>)?\s*\+\s*['A-Z?]", code):
                        continue                                      # trait bounds
                    out.append((kind, i, m.start(), a, b))
        for m in re.finditer(r"(?<![\w.])(\d+)(?![\w.])", code):
            n = int(m.group(1))
            if "=>" in code or "..=" in code or ".." in code or "const " in code:
                out.append(("const", i, m.start(), m.group(1), str(n + 1)))
                if n > 0:
                    out.append(("const", i, m.start(), m.group(1), str(n - 1)))
    for i, l in enumerate(src[:end]):
        st = l.split("//")[0].strip()
        if re.match(r"^(self|reader|input|buf|out|this|chunk_reader|data|metadata)[\w.]*\.[a-z_]+\(.*\)(\.await)?\??;$", st) and "=" not in st.split("(")[0]:
            out.append(("drop-stmt", i, i, None, None))
    # delete a whole ensure_attach! / ensure_matches_attach! / bail statement
    i = 0
    while i < end:
        if re.match(r"\s*(ensure_attach!|ensure_matches_attach!)\(", src[i]):
            j = i
            depth = 0
            while j < end:
                depth += src[j].count("(") - src[j].count(")")
                if depth <= 0 and src[j].rstrip().endswith(";"):
                    break
                j += 1
            if "Some(" not in src[i + 1] and "Some(" not in src[i]:       # ensure_matches binds a variable: cannot just drop it
                out.append(("drop-ensure", i, j, None, None))
            i = j
        i += 1
    return src, out


def sh(cmd, cwd=wt, timeout=3000, env=None):
    e = dict(os.environ, CARGO_TARGET_DIR=os.path.join(wt, "target"), CARGO_NET_OFFLINE="true")
    if env:
        e.update(env)
    try:
        p = subprocess.run(cmd, shell=True, cwd=cwd, capture_output=True, text=True, env=e, timeout=timeout, start_new_session=True)
    except subprocess.TimeoutExpired:
        subprocess.run("pkill -9 -f '%s/target/debug/deps' || true" % wt, shell=True)      # a mutant that makes the suite loop for ever
        return 124, "error: timeout"
    return p.returncode, p.stdout + p.stderr


allc = []
for f in FILES:
    src, cs = candidates(f)
    for c in cs:
        if ONLY and c[0] not in ONLY:
            continue
        allc.append((f, c))
rng.shuffle(allc)
print("candidates:", len(allc), "taking", MAXN, flush=True)
done = set()
if os.path.exists(outp):
    for l in open(outp):
        try:
            d = json.loads(l)
            done.add((d["file"], d["line"], d["old"], d["new"], d["kind"]))
        except Exception:
            pass
n = 0
for f, c in allc:
    if n >= MAXN:
        break
    kind = c[0]
    sh("git checkout -- .")
    src = open(os.path.join(wt, f)).read().split("\n")
    if kind in ("drop-ensure", "drop-stmt"):
        _, i, j, _, _ = c
        key = (f, i + 1, "\n".join(src[i:j + 1])[:200], "", kind)
        new = src[:i] + src[j + 1:]
    else:
        _, i, col, a, b = c
        key = (f, i + 1, a, b, kind)
        new = list(src)
        new[i] = src[i][:col] + b + src[i][col + len(a):]
    if key in done:
        continue
    done.add(key)
    open(os.path.join(wt, f), "w").write("\n".join(new))
    rec = {"file": f, "line": key[1], "old": key[2], "new": key[3], "kind": kind, "text": src[key[1] - 1].strip()[:160]}
    t0 = time.time()
    rc, o = sh("cargo build --workspace --offline -q 2>&1 | grep -E '^error' | head -3")
    if o.strip():
        rec["status"] = "does-not-compile"
        open(outp, "a").write(json.dumps(rec) + "\n")
        continue
    rc, o = sh("cargo test --workspace --offline 2>&1 | grep -E '^test result: FAILED|^error|panicked' | head -3", timeout=600)
    if o.strip():
        rec["status"] = "killed-by-existing-tests"
        open(outp, "a").write(json.dumps(rec) + "\n")
        continue
    n += 1
    rec["status"] = "survived"
    rec["checks"] = {}
    for p in FILES[f]:
        pr = subprocess.run(["./check", p, "--repo", wt], cwd=VROOT, capture_output=True, text=True, timeout=3000)
        v = [l for l in pr.stdout.split("\n") if l.startswith("VIOLATION")]
        rec["checks"][p] = {"exit": pr.returncode, "line": (v[0][:200] if v else "")}
        if pr.returncode != 0:
            rec["status"] = "reported"
            rec["reported_by"] = p
            rec["no_failing_input"] = bool(v and v[0].endswith("no-failing-input-found"))
            break
    rec["wall_s"] = round(time.time() - t0, 1)
    open(outp, "a").write(json.dumps(rec) + "\n")
    print(n, rec["status"], rec.get("reported_by", ""), f, key[1], repr(key[2])[:40], "->", repr(key[3])[:20], flush=True)
sh("git checkout -- .")
